(* GENERATED from /repo/cli/yara.c by lib/genoutput.py: do not edit.
   Worker thread function: scanning_thread; scanner callback: callback; output mutex: output_mutex.
   Functions of cli/yara.c inlined: callback, handle_message, print_error, print_escaped, print_hex_string, print_scanner_error, print_string, scan_file, scanning_thread.
   Output sites: callback:CALLBACK_MSG_CONSOLE_LOG -> Stdout; callback:CALLBACK_MSG_MODULE_IMPORTED -> Stdout; callback:CALLBACK_MSG_TOO_MANY_MATCHES -> Stderr; callback:CALLBACK_MSG_TOO_SLOW_SCANNING -> Stderr; handle_message -> Stdout; print_error:ERROR_CORRUPT_FILE -> Stderr; print_error:ERROR_COULD_NOT_ATTACH_TO_PROCESS -> Stderr; print_error:ERROR_COULD_NOT_OPEN_FILE -> Stderr; print_error:ERROR_EXEC_STACK_OVERFLOW -> Stderr; print_error:ERROR_INSUFFICIENT_MEMORY -> Stderr; print_error:ERROR_INVALID_EXTERNAL_VARIABLE_TYPE -> Stderr; print_error:ERROR_INVALID_FILE -> Stderr; print_error:ERROR_SCAN_TIMEOUT -> Stderr; print_error:ERROR_TOO_MANY_MATCHES -> Stderr; print_error:ERROR_UNSUPPORTED_FILE_VERSION -> Stderr; print_error:default -> Stderr; print_escaped:chr/chr/chr -> Stdout; print_escaped:default -> Stdout; print_hex_string -> Stdout; print_scanner_error -> Stderr; print_string -> Stdout; scanning_thread -> Stderr+Stdout.
   The main thread, while the workers run (file_queue_finish, file_queue_put, is_directory, main (between create and join), populate_scan_list, print_error, scan_dir), writes no file-scope variable other than the queue's and
   nothing to stdout; it writes to stderr in: populate_scan_list, print_error, scan_dir. *)
From Coq Require Import List String.
Import ListNotations.
From YV Require Import Model.QueueOutput.
Local Open Scope string_scope.

Definition out_worker : ostmt :=
  OFun "scanning_thread"
  (OSeq (OLoop (OSkip)
      (OChoice
        (OSeq (OFun "scan_file"
            (OSeq (OChoice
                (OReturn)
                (OSkip))
              (OSeq (OLoop (OSkip)
                (OFun "callback"
                  (OSeq (OCatchBreak
                      (OChoice
                        (OSeq (OFun "handle_message"
                            (OSeq (OSeq (OEv (EVar "tags" false))
                                (OChoice
                                (OLoop (OEv (EVar "tags" false))
                                  (OLoop (OSkip)
                                    (OSeq (OEv (EVar "tags" false))
                                      (OChoice
                                      (OBreak)
                                      (OSkip)))))
                                (OSkip)))
                              (OSeq (OSeq (OEv (EVar "identifiers" false))
                                (OChoice
                                (OLoop (OEv (EVar "identifiers" false))
                                  (OSeq (OEv (EVar "identifiers" false))
                                    (OChoice
                                    (OBreak)
                                    (OSkip))))
                                (OSkip)))
                              (OSeq (OSeq (OEv (EVar "negate" false))
                                (OEv (EVar "negate" false)))
                              (OSeq (OSeq (OEv (EVar "print_count_only" false))
                                (OChoice
                                (OSeq (OEv (ELock))
                                  (OSeq (OSeq (OEv (EVar "show_namespace" false))
                                    (OChoice
                                    (OEv (EOut Stdout "handle_message"))
                                    (OSkip)))
                                  (OSeq (OEv (EOut Stdout "handle_message"))
                                  (OSeq (OSeq (OEv (EVar "show_tags" false))
                                    (OChoice
                                    (OSeq (OEv (EOut Stdout "handle_message"))
                                      (OSeq (OLoop (OSkip)
                                        (OSeq (OChoice
                                            (OEv (EOut Stdout "handle_message"))
                                            (OSkip))
                                          (OEv (EOut Stdout "handle_message"))))
                                      (OEv (EOut Stdout "handle_message"))))
                                    (OSkip)))
                                  (OSeq (OSeq (OEv (EVar "show_meta" false))
                                    (OChoice
                                    (OSeq (OEv (EOut Stdout "handle_message"))
                                      (OSeq (OLoop (OSkip)
                                        (OSeq (OChoice
                                            (OEv (EOut Stdout "handle_message"))
                                            (OSkip))
                                          (OChoice
                                          (OEv (EOut Stdout "handle_message"))
                                          (OChoice
                                            (OEv (EOut Stdout "handle_message"))
                                            (OSeq (OEv (EOut Stdout "handle_message"))
                                              (OSeq (OFun "print_escaped"
                                                (OLoop (OSkip)
                                                  (OCatchBreak
                                                    (OChoice
                                                      (OSeq (OEv (EOut Stdout "print_escaped:chr/chr/chr"))
                                                        (OBreak))
                                                      (OChoice
                                                        (OEv (EOut Stdout "print_escaped:default"))
                                                        (OChoice
                                                          (OEv (EOut Stdout "print_escaped:default"))
                                                          (OSeq (OEv (EVar "cescapes" false))
                                                            (OChoice
                                                            (OSeq (OEv (EVar "cescapes" false))
                                                              (OEv (EOut Stdout "print_escaped:default")))
                                                            (OEv (EOut Stdout "print_escaped:default"))))))))))
                                              (OEv (EOut Stdout "handle_message"))))))))
                                      (OEv (EOut Stdout "handle_message"))))
                                    (OSkip)))
                                  (OSeq (OEv (EOut Stdout "handle_message"))
                                  (OSeq (OSeq (OEv (EVar "show_strings" false))
                                    (OSeq (OEv (EVar "show_string_length" false))
                                    (OSeq (OEv (EVar "show_xor_key" false))
                                    (OChoice
                                    (OLoop (OSkip)
                                      (OLoop (OSkip)
                                        (OSeq (OSeq (OEv (EVar "show_string_length" false))
                                            (OChoice
                                            (OEv (EOut Stdout "handle_message"))
                                            (OEv (EOut Stdout "handle_message"))))
                                          (OSeq (OSeq (OEv (EVar "show_xor_key" false))
                                            (OChoice
                                            (OSeq (OEv (EOut Stdout "handle_message"))
                                              (OSeq (OFun "print_string"
                                                (OLoop (OSkip)
                                                  (OChoice
                                                    (OEv (EOut Stdout "print_string"))
                                                    (OEv (EOut Stdout "print_string")))))
                                              (OEv (EOut Stdout "handle_message"))))
                                            (OSkip)))
                                          (OSeq (OSeq (OEv (EVar "show_strings" false))
                                            (OChoice
                                            (OSeq (OEv (EOut Stdout "handle_message"))
                                              (OChoice
                                              (OFun "print_hex_string"
                                                (OSeq (OLoop (OSkip)
                                                    (OEv (EOut Stdout "print_hex_string")))
                                                  (OChoice
                                                  (OEv (EOut Stdout "print_hex_string"))
                                                  (OSkip))))
                                              (OFun "print_string"
                                                (OLoop (OSkip)
                                                  (OChoice
                                                    (OEv (EOut Stdout "print_string"))
                                                    (OEv (EOut Stdout "print_string")))))))
                                            (OSkip)))
                                          (OEv (EOut Stdout "handle_message")))))))
                                    (OSkip)))))
                                  (OEv (EUnlock)))))))))
                                (OSkip)))
                              (OSeq (OChoice
                                (OSeq (OEv (EVar "total_count" false))
                                  (OEv (EVar "total_count" true)))
                                (OSkip))
                              (OSeq (OSeq (OEv (EVar "limit" false))
                                (OSeq (OEv (EVar "total_count" false))
                                (OSeq (OEv (EVar "limit" false))
                                (OChoice
                                (OReturn)
                                (OSkip)))))
                              (OReturn))))))))
                          (OReturn))
                        (OChoice
                          (OSeq (OEv (EVar "modules_data_list" false))
                            (OSeq (OLoop (OSkip)
                              (OChoice
                                (OBreak)
                                (OSkip)))
                            (OReturn)))
                          (OChoice
                            (OSeq (OSeq (OEv (EVar "show_module_data" false))
                                (OChoice
                                (OSeq (OEv (ELock))
                                  (OSeq (OLoop (OSkip)
                                    (OEv (EOut Stdout "callback:CALLBACK_MSG_MODULE_IMPORTED")))
                                  (OSeq (OEv (EOut Stdout "callback:CALLBACK_MSG_MODULE_IMPORTED"))
                                  (OEv (EUnlock)))))
                                (OSkip)))
                              (OReturn))
                            (OChoice
                              (OSeq (OSeq (OEv (EVar "ignore_warnings" false))
                                  (OChoice
                                  (OReturn)
                                  (OSkip)))
                                (OSeq (OChoice
                                  (OEv (EOut Stderr "callback:CALLBACK_MSG_TOO_SLOW_SCANNING"))
                                  (OReturn))
                                (OSeq (OSeq (OEv (EVar "fail_on_warnings" false))
                                  (OChoice
                                  (OReturn)
                                  (OSkip)))
                                (OReturn))))
                              (OChoice
                                (OSeq (OSeq (OEv (EVar "ignore_warnings" false))
                                    (OChoice
                                    (OReturn)
                                    (OSkip)))
                                  (OSeq (OEv (EOut Stderr "callback:CALLBACK_MSG_TOO_MANY_MATCHES"))
                                  (OSeq (OSeq (OEv (EVar "fail_on_warnings" false))
                                    (OChoice
                                    (OReturn)
                                    (OSkip)))
                                  (OReturn))))
                                (OChoice
                                  (OSeq (OSeq (OEv (EVar "disable_console_logs" false))
                                      (OChoice
                                      (OSeq (OEv (ELock))
                                        (OSeq (OEv (EOut Stdout "callback:CALLBACK_MSG_CONSOLE_LOG"))
                                        (OEv (EUnlock))))
                                      (OSkip)))
                                    (OReturn))
                                  (OSkip))))))))
                    (OReturn))))
              (OReturn))))
          (OSeq (OSeq (OEv (EVar "print_count_only" false))
            (OChoice
            (OSeq (OEv (ELock))
              (OSeq (OEv (EOut Stdout "scanning_thread"))
              (OEv (EUnlock))))
            (OSkip)))
          (OChoice
          (OSeq (OEv (ELock))
            (OSeq (OEv (EOut Stderr "scanning_thread"))
            (OSeq (OFun "print_scanner_error"
              (OSeq (OChoice
                  (OEv (EOut Stderr "print_scanner_error"))
                  (OChoice
                    (OEv (EOut Stderr "print_scanner_error"))
                    (OSkip)))
                (OFun "print_error"
                (OCatchBreak
                  (OChoice
                    (OBreak)
                    (OChoice
                      (OSeq (OEv (EOut Stderr "print_error:ERROR_COULD_NOT_ATTACH_TO_PROCESS"))
                        (OBreak))
                      (OChoice
                        (OSeq (OEv (EOut Stderr "print_error:ERROR_INSUFFICIENT_MEMORY"))
                          (OBreak))
                        (OChoice
                          (OSeq (OEv (EOut Stderr "print_error:ERROR_SCAN_TIMEOUT"))
                            (OBreak))
                          (OChoice
                            (OSeq (OEv (EOut Stderr "print_error:ERROR_COULD_NOT_OPEN_FILE"))
                              (OBreak))
                            (OChoice
                              (OSeq (OEv (EOut Stderr "print_error:ERROR_UNSUPPORTED_FILE_VERSION"))
                                (OBreak))
                              (OChoice
                                (OSeq (OEv (EOut Stderr "print_error:ERROR_INVALID_FILE"))
                                  (OBreak))
                                (OChoice
                                  (OSeq (OEv (EOut Stderr "print_error:ERROR_CORRUPT_FILE"))
                                    (OBreak))
                                  (OChoice
                                    (OSeq (OEv (EOut Stderr "print_error:ERROR_EXEC_STACK_OVERFLOW"))
                                      (OBreak))
                                    (OChoice
                                      (OSeq (OEv (EOut Stderr "print_error:ERROR_INVALID_EXTERNAL_VARIABLE_TYPE"))
                                        (OBreak))
                                      (OChoice
                                        (OSeq (OEv (EOut Stderr "print_error:ERROR_TOO_MANY_MATCHES"))
                                          (OBreak))
                                        (OSeq (OEv (EOut Stderr "print_error:default"))
                                          (OBreak)))))))))))))))))
            (OEv (EUnlock)))))
          (OSkip))))
        (OSkip)))
    (OReturn)).

(* file-scope variables assigned by code the main thread runs between creating and joining the workers *)
Definition out_main_writes : list string := [].

(* choices (QueueOutput.orun) of one execution that locks, prints to stdout and unlocks *)
Definition out_example_choices : list bool := [true; true; true; true; true; true; true; false].
