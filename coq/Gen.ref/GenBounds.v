(* GENERATED from include/yara/pe_utils.h, include/yara/dex.h, modules/elf/elf.c, modules/macho/macho.c,
   modules/pe/pe_utils.c by lib/genbounds.py: do not edit *)
From Coq Require Import ZArith Bool List.
From YV Require Import Base.USem.
Import ListNotations.
Local Open Scope Z_scope.

Definition MAX_PE_SECTIONS : Z := 96.
Definition PE_PAGE_SIZE : Z := 4096.
Definition PE_SECTOR_SIZE : Z := 512.
Definition sizeof_IMAGE_SECTION_HEADER : Z := 40.
Definition sizeof_IMAGE_DATA_DIRECTORY : Z := 8.
Definition sizeof_IMAGE_NT_HEADERS32 : Z := 248.
Definition sizeof_yr_load_command_t : Z := 8.
Definition sizeof_yr_mach_header_64_t : Z := 32.
Definition sizeof_yr_mach_header_32_t : Z := 28.
Definition sizeof_yr_fat_header_t : Z := 8.
Definition sizeof_yr_fat_arch_64_t : Z := 32.
Definition sizeof_yr_fat_arch_32_t : Z := 20.
Definition sizeof_dex_header_t : Z := 112.
Definition sizeof_WORD : Z := 2.
Definition sizeof_DWORD : Z := 4.
Definition sizeof_elf32_header_t : Z := 52.
Definition sizeof_elf64_header_t : Z := 64.
Definition off_nt_optional_header : Z := 24.

(* #define fits_in_pe(pe, pointer, size) ((size_t)(size) <= pe->data_size && (uint8_t* ) (pointer) >= pe->data && (uint8_t* ) (pointer) <= pe->data + pe->data_size - (size)) *)
Definition fits_in_pe (data data_size pointer size : Z) : bool :=
  (if (if (u_le (u_cast 64 size) data_size) then (u_ge pointer data) else false) then (u_le pointer (p_sub 1 (p_add 1 data data_size) size)) else false).

(* #define fits_in_dex(dex, pointer, size) ((size_t) size <= dex->data_size && (uint8_t* ) (pointer) >= dex->data && (uint8_t* ) (pointer) <= dex->data + dex->data_size - size) *)
Definition fits_in_dex (data data_size pointer size : Z) : bool :=
  (if (if (u_le (u_cast 64 size) data_size) then (u_ge pointer data) else false) then (u_le pointer (p_sub 1 (p_add 1 data data_size) size)) else false).

(* static bool is_valid_ptr( const void* base, size_t size, const void* ptr, uint64_t ptr_size) { return ptr >= base && ptr_size <= size && (size_t) (((const char* ) ptr) - ((const char* ) base)) <= size - ptr_size; } *)
Definition is_valid_ptr (base size ptr ptr_size : Z) : bool :=
  (if (if (u_ge ptr base) then (u_le ptr_size size) else false) then (u_le (u_cast 64 (u_sub 64 ptr base)) (u_sub 64 size ptr_size)) else false).

(* load-command loop 1 of macho_parse_file continues past its guards (no `break`):
    if (data + size < command + sizeof(yr_load_command_t)) break; if (size - parsed_size < command_struct.cmdsize) break; if (command_struct.cmdsize < sizeof(yr_load_command_t)) break;  *)
Definition macho_cmd_ok_1 (data size command parsed_size cmdsize : Z) : bool :=
  (if (u_lt (p_add 1 data size) (p_add 1 command sizeof_yr_load_command_t)) then false else (if (u_lt (u_sub 64 size parsed_size) cmdsize) then false else (if (u_lt cmdsize sizeof_yr_load_command_t) then false else true))).

(* load-command loop 2 of macho_parse_file continues past its guards (no `break`):
    if (data + size < command + sizeof(yr_load_command_t)) break; if (size - parsed_size < command_struct.cmdsize) break; if (command_struct.cmdsize < sizeof(yr_load_command_t)) break;  *)
Definition macho_cmd_ok_2 (data size command parsed_size cmdsize : Z) : bool :=
  (if (u_lt (p_add 1 data size) (p_add 1 command sizeof_yr_load_command_t)) then false else (if (u_lt (u_sub 64 size parsed_size) cmdsize) then false else (if (u_lt cmdsize sizeof_yr_load_command_t) then false else true))).

(* fat-arch loop of macho_parse_fat_file reaches macho_parse_file(data + arch.offset, arch.size, ...):
   arch.offset + arch.size < arch.offset; size < arch.offset + arch.size *)
Definition macho_fat_arch_ok (size offset asize : Z) : bool :=
  (if (u_lt (u_add 64 offset asize) offset) then false else (if (u_lt size (u_add 64 offset asize)) then false else true)).

(* while (i < yr_min( yr_le16toh(pe->header->FileHeader.NumberOfSections), MAX_PE_SECTIONS)) *)
Definition pe_rva_loop_cond (i number_of_sections : Z) : bool :=
  (u_lt i (if (u_lt number_of_sections MAX_PE_SECTIONS) then number_of_sections else MAX_PE_SECTIONS)).

(* ---- pe_parse_exports (modules/pe/pe.c): counts, table guards, index bounds of the indexed accesses *)
Definition MAX_PE_EXPORTS : Z := 16384.
(* number_of_exports = yr_min( yr_le32toh(exports->NumberOfFunctions), MAX_PE_EXPORTS) *)
Definition exp_number_of_exports (nfun_raw : Z) : Z :=
  (if (u_lt nfun_raw MAX_PE_EXPORTS) then nfun_raw else MAX_PE_EXPORTS).
(* number_of_names = yr_min( yr_le32toh(yr_le32toh(exports->NumberOfNames)), number_of_exports) *)
Definition exp_number_of_names (nexp nn_raw : Z) : Z :=
  (if (u_lt nn_raw nexp) then nn_raw else nexp).
(* rejected when: avail < sizeof(WORD) * number_of_exports   [avail = bytes from ordinals to the end of the data] *)
Definition exp_ordinals_rejects (avail nexp nnames nn_raw : Z) : bool :=
  (u_lt avail (u_mul 64 sizeof_WORD nexp)).
(* rejected when: avail < sizeof(DWORD) * number_of_exports   [avail = bytes from function_addrs to the end of the data] *)
Definition exp_functions_rejects (avail nexp nnames nn_raw : Z) : bool :=
  (u_lt avail (u_mul 64 sizeof_DWORD nexp)).
(* rejected when: yr_le32toh(exports->NumberOfNames) * sizeof(DWORD) > avail   [avail = bytes from names to the end of the data] *)
Definition exp_names_rejects (avail nexp nnames nn_raw : Z) : bool :=
  (u_gt (u_mul 64 nn_raw sizeof_DWORD) avail).
(* ordinals[index] is evaluated at 1 place(s); the index is known to be below: number_of_exports *)
Definition exp_ordinals_index_bound (nexp nnames : Z) : Z := nexp.
(* function_addrs[index] is evaluated at 2 place(s); the index is known to be below: number_of_exports | number_of_exports *)
Definition exp_functions_index_bound (nexp nnames : Z) : Z := (Z.max nexp nexp).
(* names[index] is evaluated at 1 place(s); the index is known to be below: number_of_exports and number_of_names *)
Definition exp_names_index_bound (nexp nnames : Z) : Z := (Z.min nexp nnames).

(* ---- dotnet.c: the functions that carry a `depth` parameter against loops
   0 = get_type_def_or_ref_fullname   (no test of its own)
   1 = parse_signature_type   returns when depth > MAX_TYPE_DEPTH = 16, before any call
   2 = parse_enclosing_types   returns when depth > MAX_NAMESPACE_DEPTH = 10, before any call
   calls (caller, callee, what is added to depth; -1: a constant is passed, the callee counts afresh): *)
Definition dotnet_depth_guarded : list bool := [false; true; true].
Definition dotnet_depth_limits : list Z := [0; 16; 10].
Definition dotnet_depth_calls : list (nat * nat * Z) := [(0%nat, 1%nat, 0); (0%nat, 2%nat, -1); (1%nat, 0%nat, 1); (1%nat, 1%nat, 1); (1%nat, 1%nat, 1); (1%nat, 1%nat, 1); (1%nat, 1%nat, 1); (1%nat, 1%nat, 1); (1%nat, 1%nat, 1); (1%nat, 1%nat, 1); (1%nat, 1%nat, 1); (1%nat, 1%nat, 1); (2%nat, 2%nat, 1)].
(* certificates computed by the translator (checked in Coq): a rank that decreases along every call that passes depth
   unchanged, and one that decreases along every call between two functions without a test *)
Definition dotnet_zero_rank : list nat := [1%nat; 0%nat; 0%nat].
Definition dotnet_unguarded_rank : list nat := [0%nat; 0%nat; 0%nat].
(* and one that never increases along a call and decreases where a constant is passed *)
Definition dotnet_reset_rank : list nat := [3%nat; 3%nat; 1%nat].

(* ---- elf.c module_load: (class, data, size demanded of the block, size of the type block_data is cast to,
        size of the header type of the parser called, bits of that parser, 1 = big-endian parser)
   ELF_CLASS_32/ELF_DATA_2LSB: block->size > sizeof(elf32_header_t); (elf32_header_t* ) block_data; parse_elf_header_32_le
   ELF_CLASS_32/ELF_DATA_2MSB: block->size > sizeof(elf32_header_t); (elf32_header_t* ) block_data; parse_elf_header_32_be
   ELF_CLASS_64/ELF_DATA_2LSB: block->size > sizeof(elf64_header_t); (elf64_header_t* ) block_data; parse_elf_header_64_le
   ELF_CLASS_64/ELF_DATA_2MSB: block->size > sizeof(elf64_header_t); (elf64_header_t* ) block_data; parse_elf_header_64_be
*)
Definition ELF_CLASS_32 : Z := 1.
Definition ELF_CLASS_64 : Z := 2.
Definition ELF_DATA_2LSB : Z := 1.
Definition ELF_DATA_2MSB : Z := 2.
Definition elf_header_branches : list (Z * Z * Z * Z * Z * Z * Z) := [(1, 1, 52, 52, 52, 32, 0); (1, 2, 52, 52, 52, 32, 1); (2, 1, 64, 64, 64, 64, 0); (2, 2, 64, 64, 64, 64, 1)].

(* ---- object.c yr_object_dict_set_item: capacity of the block and the free counter
   first insertion: count = 64; free = count; used = 0
   full (free == 0): count = dict->items->used * 2; free = dict->items->used
   every insertion: objects[used] = item; used++; free-- *)
Definition dict_initial_count : Z := 64.
Definition dict_grow (used : Z) : Z := (used * 2).
Definition dict_free_after_grow (used count : Z) : Z := used.
