(* GENERATED from /repo/cli/yara.c (file_queue_init/put/get/finish, main, scanning_thread) by
   lib/genqueue.py: do not edit.  Shared names in the source: ring file_queue, head queue_head, tail queue_tail,
   semaphores used_slots (QUsed) / unused_slots (QUnused), mutex queue_mutex. *)
From Coq Require Import ZArith List.
Import ListNotations.
From YV Require Import gen.GenConsts Model.QueueOps.
Local Open Scope Z_scope.

Definition MAX_QUEUED_FILES : Z := 64.

Definition queue_cfg : qconfig := {|
  qc_put := [QWait QUnused; QLock; QStore QTail; QInc QTail (Z.to_nat (MAX_QUEUED_FILES + 1)); QUnlock; QRelease QUsed];
  qc_get := [QWait QUsed; QLock; QIfEqElse QHead QTail 2; QLoad QHead; QInc QHead (Z.to_nat (MAX_QUEUED_FILES + 1)); QUnlock; QRelease QUnused];
  qc_fin_sem := QUsed;
  qc_fin_n := Z.to_nat GenConsts.YR_MAX_THREADS;
  qc_slots := Z.to_nat (MAX_QUEUED_FILES + 1);
  qc_used0 := Z.to_nat 0;
  qc_unused0 := Z.to_nat MAX_QUEUED_FILES;
  qc_head0 := 0;
  qc_tail0 := 0
|}.

(* main() refuses to start with more scanning threads than this *)
Definition queue_max_threads : nat := Z.to_nat GenConsts.YR_MAX_THREADS.
