#!/usr/bin/env python3
"""tools/run_seeded.py <seeded-dir> [--confirm] [--tier quick|thorough] [--checks C01,C05]
Applies seeded/<id>/patch.diff to a scratch copy of /repo, (optionally) confirms that the project still
builds and passes its tests and that the demonstration fails with / passes without the change, then
runs the property's check with VERIF_REPO pointing at the patched copy and records the outcome in meta.json."""
import json, os, subprocess, sys, shutil, time, glob
HERE = os.path.dirname(os.path.dirname(os.path.abspath(__file__)))


def sh(cmd, cwd=None, timeout=3600, env=None):
    p = subprocess.run(cmd, shell=True, cwd=cwd, stdout=subprocess.PIPE, stderr=subprocess.STDOUT, text=True, timeout=timeout, env=env)
    return p.returncode, p.stdout


def main():
    d = os.path.abspath(sys.argv[1])
    confirm = "--confirm" in sys.argv
    tier = sys.argv[sys.argv.index("--tier") + 1] if "--tier" in sys.argv else "quick"
    meta_p = os.path.join(d, "meta.json")
    meta = json.load(open(meta_p)) if os.path.exists(meta_p) else {}
    pid = meta.get("property") or os.path.basename(d).split("-")[0]
    checks = sys.argv[sys.argv.index("--checks") + 1].split(",") if "--checks" in sys.argv else [pid]
    scratch = "/tmp/seedrun-%d" % os.getpid()
    shutil.rmtree(scratch, ignore_errors=True)
    sh("cp -a /repo %s" % scratch)
    try:
        rc, out = sh("git apply --whitespace=nowarn %s" % os.path.join(d, "patch.diff"), cwd=scratch)
        if rc != 0:
            print("patch does not apply:", out[-500:])
            meta["applies"] = False
            json.dump(meta, open(meta_p, "w"), indent=1)
            return 2
        meta["applies"] = True
        meta["base_commit"] = sh("git -C /repo rev-parse --short HEAD")[1].strip()
        if confirm:
            rc, out = sh("make -j16 2>&1 | tail -3; make check 2>&1 | grep -E '^# (TOTAL|PASS|FAIL)'", cwd=scratch)
            meta["make_check_with_change"] = out.strip().split("\n")[-3:]
            print("make check with change:", meta["make_check_with_change"])
        env = dict(os.environ, VERIF_REPO=scratch)
        results = {}
        for c in checks:
            t0 = time.time()
            rc, out = sh("bin/check %s --tier %s" % (c, tier), cwd=HERE, env=env, timeout=5400)
            vio = [l for l in out.split("\n") if l.startswith("VIOLATION")]
            desc = []
            lines = out.split("\n")
            for i, l in enumerate(lines):
                if l.startswith("VIOLATION") and i + 1 < len(lines):
                    desc.append(lines[i + 1].strip()[:300])
            results[c] = {"exit": rc, "violations": len(vio), "first": desc[:3], "no_input": sum("no-failing-input-found" in v for v in vio),
                          "wall_s": round(time.time() - t0)}
            print(c, "exit", rc, "violations", len(vio), desc[:2])
        meta.setdefault("runs", []).append({"tier": tier, "at_commit": sh("git -C %s rev-parse --short HEAD" % HERE)[1].strip(), "results": results})
        meta["caught_by"] = sorted(set(meta.get("caught_by", [])) | {c for c, r in results.items() if r["exit"] != 0})
        json.dump(meta, open(meta_p, "w"), indent=1)
    finally:
        shutil.rmtree(scratch, ignore_errors=True)
        # generated models were regenerated from the patched copy: restore them from /repo (under the checks' lock)
        sh("python3 -c \"import sys, fcntl; sys.path.insert(0,'lib'); f=open('.check.lock','w'); fcntl.flock(f, fcntl.LOCK_EX); import vlib; vlib.coq_prepare()\"", cwd=HERE)
    return 0


sys.exit(main())
