#!/usr/bin/env python3
"""regenerate the table of seeded changes in seeded/README.md and the summary in DESIGN.md (between the markers)"""
import subprocess, os, re, json, glob
HERE = os.path.dirname(os.path.dirname(os.path.abspath(__file__)))
table = subprocess.run(["python3", os.path.join(HERE, "tools", "seeded_table.py")], capture_output=True, text=True).stdout
B, E = "<!-- seeded-table:begin -->", "<!-- seeded-table:end -->"
p = os.path.join(HERE, "seeded", "README.md")
s = open(p).read()
if B not in s:
    s += "\n" + B + "\n" + E + "\n"
s = s[:s.index(B) + len(B)] + "\n" + table + s[s.index(E):]
open(p, "w").write(s)
# summary per round
rounds = {}
for mp in sorted(glob.glob(HERE + "/seeded/C*/meta.json")) + sorted(glob.glob(HERE + "/seeded/round[2-9]/C*/meta.json")):
    m = json.load(open(mp))
    if m.get("out_of_scope"):
        continue
    rd = m.get("round", 1)
    runs = m.get("runs", [])
    first = any(r.get("exit") for r in (runs[0]["results"].values() if runs else []))
    now = bool(m.get("caught_by"))
    r = rounds.setdefault(rd, [0, 0, 0])
    r[0] += 1
    r[1] += first
    r[2] += now
lines = ["| round | changes | caught when first run | caught now |", "|---|---|---|---|"]
for rd in sorted(rounds):
    lines.append("| %d | %d | %d | %d |" % (rd, rounds[rd][0], rounds[rd][1], rounds[rd][2]))
B2, E2 = "<!-- seeded-summary:begin -->", "<!-- seeded-summary:end -->"
p = os.path.join(HERE, "DESIGN.md")
s = open(p).read()
if B2 in s:
    s = s[:s.index(B2) + len(B2)] + "\n" + "\n".join(lines) + "\n" + s[s.index(E2):]
    open(p, "w").write(s)
print("\n".join(lines))
