#!/usr/bin/env python3
"""tools/c16_explore.py [quick|thorough] [scenario,scenario...] : run only the scenario-level exploration of C16 and print keys (VERIF_REPO selects the tree)."""
import sys, time; sys.path.insert(0,'/verif/lib'); sys.path.insert(0,'/verif/checks')
import build, vlib, c16
chk = vlib.Check("C16", sys.argv[1] if len(sys.argv)>1 else "quick", 1)
h = build.harness("h_alloc", "asan", extra_flags=c16.WRAP)
t=time.time()
only = sys.argv[2].split(",") if len(sys.argv)>2 else None
n, d = c16.explore(chk, h, chk.tier, only)
print("evals", n, "distinct", len(d), "time %.1f" % (time.time()-t))
import json
print(json.dumps(chk.cov, indent=1)[:3000])
seen=set()
for key, what, rp, f in chk.violations:
    if key in seen: continue
    seen.add(key)
    print("V", key, "|", what[:400])
print(len(chk.violations), "violations", len(seen), "keys")
