#!/bin/bash
# independent re-check of every compiled property file and everything it depends on (takes ~5 min, ~4 GB);
# prints the axioms the development relies on.  Last output: docs/coqchk-output.txt
cd "$(dirname "$0")/../coq" && coqchk -o -silent -R . YV $(ls Props/Properties_C*.v | sed 's|Props/|YV.Props.|; s|\.v$||')
