#!/usr/bin/env python3
"""Regenerates MANIFEST.json from the table below (keeps it valid and in one place)."""
import json, os
HERE = os.path.dirname(os.path.dirname(os.path.abspath(__file__)))
props = [json.loads(l) for l in open(os.path.join(HERE, "properties.jsonl"))]

CHECKS = {
 "C05": dict(
   text="Independence is a statement about the shared automaton: theorems (Proofs/ACProofs.v) show that for every image passing the decidable certificate ac_cert the scan loop of scanner.c, at every position of every buffer, walks exactly the matches owned by the states whose path is a suffix of the input (run_is_longest_suffix, ac_reports_all_and_only), hence every occurrence of every atom of a string - and with the coverage certificate every occurrence of the string - reaches the verifier whatever other rules share states, prefixes, suffixes, failure links and match lists (occurrences_verified_in_any_company); adding atoms never removes a candidate. Tie: ac_cert is evaluated by the extracted model on the transition/match tables decoded from the saved image of COMBINED rule sets; a target rule is run alone vs appended to / permuted with / split over namespaces, add calls and include files with 1-4 related rules (shared atoms, prefixes, suffixes, regex, private rules, imports) on 4 buffers each.",
   note="Trusted: Coq kernel, extraction, image decoder model (validated by the scan correspondence of C01), harness. Not proved: independence at lexer/parser level (source splitting, includes) and of condition bytecode / rule and namespace indexes - metamorphic runs only.",
   technique="Coq proof of Aho-Corasick table correctness under a per-image certificate + metamorphic alone-vs-company runs", ref="DESIGN.md 4 C05"),
 "C11": dict(
   text="For all import lists, rule lists (any mix of global/private/disabled rules over any namespaces), flag words and callback scripts (nat->answer), the Gallina model of set_flags + module loading + OP_INIT_RULE/OP_MATCH_RULE bitmaps + the report loop of scanner.c delivers exactly the declarative message list `modules ++ expected ++ [finished]` cut right after the first stopping answer (protocol_is_cut_of_full_list); each_nonprivate_once_in_order, private_never, finished_last_iff_not_aborted, matching_iff_cond_and_globals, import_pair_once_per_module, abort_stops_with_success, error_stops_with_callback_error, module_error_fails_scan are corollaries. Tie: traces, return codes and the rule_matches_flags/ns_unsatisfied_flags bitmaps of the real library are compared with the extracted model for generated rule sets (exhaustive <= 2 rules, random with imports/disabled rules/rule references) x all 4 flag settings x abort/error at every message index.",
   note="Trusted: Coq kernel, extraction, harness h_proto. Not modelled: console.log, TOO_MANY_MATCHES / TOO_SLOW_SCANNING messages, module load failures, timeouts. The library ignores CALLBACK_ABORT in response to module messages; the model says so and the property does not claim otherwise.",
   technique="Coq proof over executable protocol model + trace/bitmap correspondence", ref="DESIGN.md 4 C11"),
 "C13": dict(
   text="resume_equivalent / resume_result_is_each_block_once: for every block list, file-size function and every not-ready pattern allowed by docs/capi.rst (not-ready at arbitrary calls of the first full iteration, including first()), repeating the call gives exactly the uninterrupted result = every block scanned once in order, after exactly 1 + #not-ready calls, with the scanner clean; entry_points_agree: mem / file / fd at rules and scanner level and a single-block iterator give the same result; both for any abstract per-block matcher. Tie: all partitions of small buffers into <= 4 blocks x all not-ready bit strings (exhaustive), compared per call (return code, first()/next() call log) and at the end (callbacks, match offsets); follow-up scans on the same scanner; patterns outside the contract; 8 entry points x buffers incl. empty and page-aligned ones.",
   note="Per-block string matching and rule evaluation are abstract in the theorems. mmap/open of filemap.c are exercised, not modelled. Not-ready during the re-iteration done by rule evaluation is explored against the model, not covered by the theorem.",
   technique="Coq proof over resumable-scanner model + exhaustive small-scope correspondence", ref="DESIGN.md 4 C13"),
 "C04": dict(
   text="Spec/CondSpec.v is the documented three-valued semantics of conditions (string presence/count/offset/length, at/in, of, for..of/for..in with any quantifier, integer arithmetic/bitwise/shift/comparison, boolean operators, intN/uintN readers, filesize, earlier rules, integer externals, defined). Theorems over models regenerated from the sources on every run: grammar.y's precedence/associativity declarations equal the manual's table; every integer VM case yields undefined for an undefined operand; and/or treat undefined as false, not propagates it; each integer opcode computes the documented operator (C12's theorem). Tie: the extracted evaluator (over the C01 reference match sets) is compared with the real compiler+scanner on random typed condition trees of depth <= 5 with up to 3 nested loops, printed with minimal parentheses, 1-3 rules per set, externals at INT64 extremes, reads past the end, out-of-range indexes.",
   note="Trusted: Coq kernel, extraction, translators (genfold/cexpr/GenPrec), harness. Not proved: that the bytecode emitted for a condition computes the evaluator's value (no model compiler yet) - that part is correspondence only. Floats, string operators (contains, matches, ...) and module calls are not in the fragment. Known finding: an undefined numeric quantifier acts as 'all'.",
   technique="Coq proof over source-generated opcode/precedence models + evaluator-vs-implementation correspondence", ref="DESIGN.md 4 C04"),
 "C01": dict(
   text="Spec/TextSpec.v is the documented semantics of text strings (ascii, wide, nocase, fullword, xor ranges). Theorems: the executable reference reports every offset once, in ascending order, exactly where the string occurs (text_matches_exact, all strings, modifiers and buffers); for ANY atom set that passes the coverage certificate every occurrence in every buffer is proposed to the verifier by an atom hit (candidates_complete: 'whichever substring the engine picks'). Tie: the certificate cover_ok is evaluated by the extracted model on the atoms decoded from the saved image of every generated rule (Model/Image.v decodes strings, transition table, match lists), and the real scanner's match lists are compared with the extracted reference on generated strings x buffers (planted variants at 0/end/overlapping, near misses, alnum/NUL neighbours, keys outside the range).",
   note="Trusted: Coq kernel, extraction, C harness h_scan, layout/constants/character-table translators. The stored automaton is proved to report exactly the atom occurrences under the per-image certificate ac_cert (ac_reports_all_and_only, atom_hits_reach_verifier). Not proved (correspondence only): the verifier (compare functions of scan.c) accepts exactly the occurrences among the candidates. base64/base64wide strings are not covered yet.",
   technique="Coq proof (spec + atom-coverage certificate) + image decoding + scan correspondence", ref="DESIGN.md 4 C01"),
 "C17": dict(
   text="Theorems over the Gallina model of yr_arena_save_stream / yr_arena_load_stream / yr_rules_load_stream: every strict prefix of every well-formed saved image is rejected (truncated_rejected: all arenas, all cut points), the full image round-trips, accepted files have the right magic/version/section count. Tie: the extracted model and the real loader run on every prefix of generated images, all single-field header/table corruptions and malformed files (exact rc and re-saved bytes compared), and wf_arena is checked on every image the real compiler writes.",
   note="Trusted: Coq kernel, extraction (ExtrOcamlBasic), C harness h_load/h_scan, constants/layout translator; malloc assumed to succeed; rejection of corrupted offset/size table fields is an exhaustive sweep, not a theorem.",
   technique="Coq proof over codec model + extracted-model/implementation correspondence", ref="DESIGN.md 4 C17"),
 "C12": dict(
   text="gen/GenFold.v is translated from the grammar.y folding actions and the exec.c integer VM cases on every run; theorems (all int64 operand pairs): whenever an action folds to a value the VM case of the opcode that action emits computes the same value (fold_agrees_with_vm) and that VM case computes the documented operator (vm_computes_documented_operators). Tie: translation on every run, validated by running constant and run-time (external) forms of every operator on boundary and random operands through the real compiler and scanner; metamorphic twins for fast mode, forced evaluation and redefinition of externals at rules and scanner level.",
   note="Trusted: Coq kernel, translator lib/genfold.py + lib/cexpr.py (validated against the implementation each run), two's-complement wrap-around assumed for signed overflow (UBSan reports it in grammar.y; recorded in the evidence). Atom-quality tables and float folding not covered yet.",
   technique="Coq proof over source-generated model + twin-run correspondence", ref="DESIGN.md 4 C12"),
 "C07": dict(
   text="Proved fragment: compile-time evaluation of constant expressions never executes a trapping operation for any int64 operands (fold_never_traps over the model regenerated from grammar.y). The rest of the property is explored, not proved: token-level truncation/deletion/duplication and byte mutations of seed rule files, oversized constructs and include loops are compiled in an ASan+UBSan+LSan build; checked: no crash, error count equals the number of error callbacks and each has a message, no leak after destroy, an unrelated compile+scan afterwards works.",
   note="PARTIAL: the grammar/lexers are not modelled, accept/reject is not predicted; sanitizer runtimes and the harness are trusted.",
   technique="Coq proof (generated fold model) + sanitizer-monitored mutation runs", ref="DESIGN.md 4 C07"),
}

NOT_YET = "machinery not built yet in this round (design in DESIGN.md section 4); not claimed"

m = {
 "version": 1,
 "setup_cmd": "bin/setup",
 "hooks": {"guard": "YARA_VERIF",
           "enable": "lib/build.py compiles /repo's libyara and cli sources with -DYARA_VERIF (plus -DMACHO_MODULE -DDEX_MODULE) into /verif/_cache/<tree-hash>-<variant>/libyara.a",
           "baseline_off_cmd": "make -C /repo -j16 && make -C /repo check", "source_commits": ["5ccb23d"], "add_only": True},
 "engines": [{"name": "coq-proof+correspondence", "path": "bin/check", "serves_properties": sorted(CHECKS),
              "kind_free_text": "Coq 8.16.1 theorems over Gallina models (coq/), models regenerated from source (lib/gen*.py) or tied by extracted-OCaml vs C-harness correspondence"}],
 "checks": [
  {"property_id": pid, "quick_cmd": "bin/check %s --tier quick" % pid, "thorough_cmd": "bin/check %s --tier thorough" % pid,
   "evidence_file": "/verif/evidence/%s.json" % pid, "replay_cmd_template": "bin/check %s --replay {path}" % pid,
   "engine": "coq-proof+correspondence",
   "level_claimed": {"category": "proof", "text": c["text"], "design_ref": c["ref"]},
   "level_note": c["note"], "technique": c["technique"]}
  for pid, c in sorted(CHECKS.items())],
 "not_applicable": [{"property_id": p["id"], "reason": NOT_YET} for p in props if p["id"] not in CHECKS],
 "notes": "Checks rebuild libyara from /repo's working tree (cache keyed by a hash of the sources). known_findings.json lists fixed defects.",
}
json.dump(m, open(os.path.join(HERE, "MANIFEST.json"), "w"), indent=1)
print("claimed:", sorted(CHECKS))
