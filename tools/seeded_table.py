#!/usr/bin/env python3
"""print a markdown table of the seeded changes (seeded/*/meta.json, seeded/round2/*/meta.json) and which check caught them"""
import json, glob, os, re
HERE = os.path.dirname(os.path.dirname(os.path.abspath(__file__)))
def needs_from_readme(d):
    import glob as g
    for f in g.glob(d + "/README*"):
        t = open(f, errors="replace").read()
        m = re.search(r"(?is)(trigger|needs? (in order )?to manifest)[^\n]*\n+(.{20,400}?)(\n\n|\n#)", t)
        if m:
            return " ".join(m.group(3).split())
    return ""


rows = []
for mp in sorted(glob.glob(HERE + "/seeded/C*/meta.json")) + sorted(glob.glob(HERE + "/seeded/round[2-9]/C*/meta.json")):
    m = json.load(open(mp))
    d = os.path.dirname(mp)
    patch = open(d + "/patch.diff").read() if os.path.exists(d + "/patch.diff") else ""
    files = sorted(set(re.findall(r"^\+\+\+ b/(\S+)", patch, re.M)) - {"libyara/grammar.c", "libyara/lexer.c"})
    runs = m.get("runs", [])
    first = runs[0]["results"] if runs else {}
    last = runs[-1]["results"] if runs else {}
    own = m.get("property")
    first_caught = any(r.get("exit") for r in first.values())
    last_caught = [c for c, r in last.items() if r.get("exit")]
    concrete = any(r.get("exit") and r.get("violations", 0) > r.get("no_input", 0) for r in last.values())
    if m.get("out_of_scope"):
        rows.append((os.path.relpath(d, HERE + "/seeded"), own, ", ".join(files), "OUT OF SCOPE: " + m["out_of_scope"][:140], "-", "-", "-"))
        continue
    rows.append((os.path.relpath(d, HERE + "/seeded"), own, ", ".join(files), (m.get("needs") or needs_from_readme(d))[:150].replace("|", "/"),
                 "yes" if first_caught else "no", ", ".join(sorted(set(m.get("caught_by", [])))) or "-",
                 "yes" if concrete else ("proof/cert only" if last_caught else "-")))
print("| change | property | files | needs | caught at first run | caught by (now) | concrete failing input |")
print("|---|---|---|---|---|---|---|")
for r in rows:
    print("| " + " | ".join(r) + " |")
