import sys; sys.path[:0]=['/verif/lib','/verif/checks']
import build,vlib,c16,re,subprocess
scn=sys.argv[1]; k=int(sys.argv[2]); sticky=int(sys.argv[3]) if len(sys.argv)>3 else 0
tail=int(sys.argv[4]) if len(sys.argv)>4 else 5000
h=build.harness('h_alloc','asan',extra_flags=c16.WRAP)
sc=[s for s in c16.scenarios('thorough') if s[0]==scn][0]
r,e,_=c16.run_batch(h,sc,[(k,k)],sticky)
print(r)
m=re.search(r"INJECT k=%d bt=(\S+)"%k,e)
if m:
    addrs=[a for a in m.group(1).split(',') if a]
    p=subprocess.run(['addr2line','-f','-i','-e',h]+addrs,stdout=subprocess.PIPE,text=True).stdout.split('\n')
    print("INJECT STACK:")
    for i in range(0,len(p)-1,2): print("  ",p[i],p[i+1].replace('/verif/_cache/',''))
i=e.find("BEGIN k=%d\n"%k)
print(e[i:][:tail] if i>=0 else e[-tail:])
