// Shared helpers for the correspondence harness drivers.
#ifndef HCOMMON_H
#define HCOMMON_H
#include <stdio.h>
#include <stdlib.h>
#include <string.h>
#include <stdint.h>
#include <unistd.h>
#include <signal.h>
#include <sys/wait.h>
#include <sys/mman.h>
#include <yara.h>

static char* h_readline(FILE* f)
{
  size_t cap = 1 << 16, n = 0;
  char* buf = (char*) malloc(cap);
  int c;
  while ((c = fgetc(f)) != EOF && c != '\n')
  {
    if (n + 2 > cap) { cap *= 2; buf = (char*) realloc(buf, cap); }
    buf[n++] = (char) c;
  }
  if (c == EOF && n == 0) { free(buf); return NULL; }
  buf[n] = 0;
  return buf;
}

static int h_hexval(int c)
{
  if (c >= '0' && c <= '9') return c - '0';
  if (c >= 'a' && c <= 'f') return c - 'a' + 10;
  if (c >= 'A' && c <= 'F') return c - 'A' + 10;
  return -1;
}

// decodes hex (or "-" for empty) ; returns malloc'd buffer (size+1, NUL terminated)
static uint8_t* h_unhex(const char* s, size_t* len)
{
  size_t n = strlen(s);
  if (n == 1 && s[0] == '-') n = 0;
  uint8_t* out = (uint8_t*) malloc(n / 2 + 1);
  for (size_t i = 0; i + 1 < n + 0 && i / 2 < n / 2; i += 2)
    out[i / 2] = (uint8_t) (h_hexval(s[i]) * 16 + h_hexval(s[i + 1]));
  out[n / 2] = 0;
  *len = n / 2;
  return out;
}

static void h_puthex(FILE* f, const uint8_t* p, size_t n)
{
  static const char* d = "0123456789abcdef";
  if (n == 0) { fputc('-', f); return; }
  for (size_t i = 0; i < n; i++) { fputc(d[p[i] >> 4], f); fputc(d[p[i] & 15], f); }
}

// memory stream
typedef struct { uint8_t* data; size_t len, cap, pos; size_t chunk; } HMEM;

static size_t hmem_write(const void* ptr, size_t size, size_t count, void* ud)
{
  HMEM* m = (HMEM*) ud;
  size_t n = size * count;
  if (m->len + n > m->cap) { m->cap = (m->len + n) * 2 + 64; m->data = (uint8_t*) realloc(m->data, m->cap); }
  memcpy(m->data + m->len, ptr, n);
  m->len += n;
  return count;
}

// fread semantics: number of complete elements
static size_t hmem_read(void* ptr, size_t size, size_t count, void* ud)
{
  HMEM* m = (HMEM*) ud;
  if (size == 0 || count == 0) return 0;
  size_t avail = (m->len - m->pos) / size;
  size_t k = avail < count ? avail : count;
  memcpy(ptr, m->data + m->pos, k * size);
  m->pos += k * size;
  if (k < count) m->pos = m->len;  // a short read consumes the rest, like fread at EOF
  return k;
}

// Runs fn(arg, out) in a forked child; its output (written to the FILE*) is copied to stdout.
// On abnormal termination prints "crash sig=<n>". Returns 0 if the child exited normally.
static int h_in_child(void (*fn)(void*, FILE*), void* arg, int timeout_s)
{
  int fds[2];
  fflush(stdout);
  if (pipe(fds) != 0) { perror("pipe"); exit(2); }
  pid_t pid = fork();
  if (pid == 0)
  {
    close(fds[0]);
    FILE* out = fdopen(fds[1], "w");
    if (timeout_s > 0) alarm(timeout_s);
    fn(arg, out);
    fflush(out);
    _exit(0);
  }
  close(fds[1]);
  char buf[65536];
  ssize_t n;
  while ((n = read(fds[0], buf, sizeof buf)) > 0) fwrite(buf, 1, (size_t) n, stdout);
  close(fds[0]);
  int st = 0;
  waitpid(pid, &st, 0);
  if (WIFSIGNALED(st)) { printf("crash sig=%d\n", WTERMSIG(st)); return 1; }
  if (WIFEXITED(st) && WEXITSTATUS(st) != 0) { printf("crash exit=%d\n", WEXITSTATUS(st)); return 1; }
  return 0;
}
#endif
