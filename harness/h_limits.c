// h_limits: engine-limit driver for C15.  Reads cases from stdin like h_scan:
//   case <id> / <commands...> / endcase         (one forked child per case, alarm = argv[1] seconds)
// Commands (payloads hex, "-" = empty):
//   cfg <stack|strings|matchdata> <uint32>     yr_set_configuration + read back
//   getcfg                                      prints the three uint32 settings
//   newcompiler | file <name> <hex> | add <hex> | getrules | destroy
//   fill <byte> <n> | plant <offset> <hex> | buf <hex>
//   scan <timeout_s> <too_many_answer> <too_slow_answer> [flags]     yr_rules_scan_mem (answers: 0 continue 1 abort 2 error)
//   scanner | stimeout <s> | sscan <too_many_answer> <too_slow_answer>   scanner-level, scanner reused
//   blocks <size> <n> <sleep_us> | bscan | rbscan <timeout_s>   mem_blocks entry points over a (sleeping) iterator
//   smoke                                       fresh compile + scan of a fixed rule: the library is still usable
// Every scan is timed with clock_gettime(CLOCK_MONOTONIC) and prints ms=<elapsed>.
#include "hcommon.h"
#include <time.h>
#include <yara/compiler.h>

#define MAXF 256
typedef struct { char* name; uint8_t* data; size_t len; } HFILE;

typedef struct
{
  YR_COMPILER* compiler;
  YR_RULES* rules;
  YR_SCANNER* scanner;
  HFILE files[MAXF];
  int nfiles;
  FILE* out;
  uint8_t* buf;
  size_t buflen;
  int errors;
  int stop;
  int ans_many, ans_slow;
  int nmany, nslow;
  char many[512], slow[512];
  int in_smoke, smoke_match;
} HL;

static long now_ms(void)
{
  struct timespec ts;
  clock_gettime(CLOCK_MONOTONIC, &ts);
  return (long) (ts.tv_sec * 1000L + ts.tv_nsec / 1000000L);
}

static void compile_cb(int level, const char* file, int line, const YR_RULE* rule, const char* msg, void* ud)
{
  HL* s = (HL*) ud;
  fprintf(s->out, "cb level=%s line=%d file=%s code=%d msg=", level == YARA_ERROR_LEVEL_ERROR ? "e" : "w", line,
          file ? file : "-", level == YARA_ERROR_LEVEL_ERROR ? s->compiler->last_error : 0);
  h_puthex(s->out, (const uint8_t*) msg, strlen(msg));
  fprintf(s->out, "\n");
}

static const char* include_cb(const char* name, const char* calling_file, const char* calling_ns, void* ud)
{
  HL* s = (HL*) ud;
  for (int i = 0; i < s->nfiles; i++)
    if (strcmp(s->files[i].name, name) == 0)
    {
      char* c = (char*) malloc(s->files[i].len + 1);
      memcpy(c, s->files[i].data, s->files[i].len);
      c[s->files[i].len] = 0;
      return c;
    }
  return NULL;
}
static void include_free(const char* p, void* ud) { free((void*) p); }

static void append(char* dst, size_t cap, const char* id)
{
  size_t n = strlen(dst);
  if (n + strlen(id) + 2 < cap) { strcat(dst, id); strcat(dst, ","); }
}

static int scan_cb(YR_SCAN_CONTEXT* ctx, int msg, void* data, void* ud)
{
  HL* s = (HL*) ud;
  FILE* o = s->out;
  switch (msg)
  {
  case CALLBACK_MSG_RULE_MATCHING:
  case CALLBACK_MSG_RULE_NOT_MATCHING:
  {
    YR_RULE* r = (YR_RULE*) data;
    if (s->in_smoke) { if (msg == CALLBACK_MSG_RULE_MATCHING) s->smoke_match++; break; }
    fprintf(o, " %c:%s[", msg == CALLBACK_MSG_RULE_MATCHING ? 'M' : 'N', r->identifier);
    YR_STRING* str;
    yr_rule_strings_foreach(r, str)
    {
      YR_MATCH* m;
      long long cnt = 0, first = -1, last = -1;
      unsigned long long sum = 0, dsum = 0;
      long long dmin = 1LL << 40, dmax = -(1LL << 40);
      int sorted = 1;
      yr_string_matches_foreach(ctx, str, m)
      {
        long long off = (long long) (m->base + m->offset);
        if (cnt == 0) first = off;
        if (cnt > 0 && off <= last) sorted = 0;
        last = off;
        cnt++;
        sum = sum * 1000003ULL + (unsigned long long) off * 31ULL + (unsigned long long) m->match_length;
        dsum += (unsigned long long) (long long) m->data_length;
        if (m->data_length < dmin) dmin = m->data_length;
        if (m->data_length > dmax) dmax = m->data_length;
      }
      fprintf(o, "%s=%lld/%lld/%lld/%llx/%d/%lld/%lld|", str->identifier, cnt, first, last, sum, sorted,
              cnt ? dmin : 0, cnt ? dmax : 0);
    }
    fprintf(o, "]");
    break;
  }
  case CALLBACK_MSG_TOO_MANY_MATCHES:
    s->nmany++;
    append(s->many, sizeof s->many, ((YR_STRING*) data)->identifier);
    return s->ans_many;
  case CALLBACK_MSG_TOO_SLOW_SCANNING:
    s->nslow++;
    append(s->slow, sizeof s->slow, ((YR_STRING*) data)->identifier);
    return s->ans_slow;
  default:
    break;
  }
  return CALLBACK_CONTINUE;
}

static char* tok(char** p)
{
  char* s = *p;
  while (*s == ' ') s++;
  if (!*s) { *p = s; return s; }
  char* e = s;
  while (*e && *e != ' ') e++;
  if (*e) { *e = 0; e++; }
  *p = e;
  return s;
}

static int cfg_name(const char* n)
{
  if (!strcmp(n, "stack")) return YR_CONFIG_STACK_SIZE;
  if (!strcmp(n, "strings")) return YR_CONFIG_MAX_STRINGS_PER_RULE;
  if (!strcmp(n, "matchdata")) return YR_CONFIG_MAX_MATCH_DATA;
  return -1;
}

static void smoke(HL* s)
{
  FILE* o = s->out;
  YR_COMPILER* c = NULL;
  YR_RULES* r = NULL;
  int rc = yr_compiler_create(&c);
  int e = -1, rc2 = -1, rc3 = -1;
  s->in_smoke = 1;
  s->smoke_match = 0;
  if (rc == 0)
  {
    e = yr_compiler_add_string(c, "rule smoke { strings: $x = \"needle\" $y = /ne+dle/ condition: #x == 2 and $y and for any i in (0..3): (i == 2) }", NULL);
    if (e == 0) rc2 = yr_compiler_get_rules(c, &r);
    if (rc2 == 0) rc3 = yr_rules_scan_mem(r, (const uint8_t*) "xxneedle needle", 15, 0, scan_cb, s, 0);
    if (r) yr_rules_destroy(r);
    yr_compiler_destroy(c);
  }
  s->in_smoke = 0;
  fprintf(o, "smoke create=%d errors=%d getrules=%d scan=%d match=%d\n", rc, e, rc2, rc3, s->smoke_match);
}

// ---- block iterator: <nblocks> blocks of <size> bytes (all 'a'), `next` sleeps <sleep_us> microseconds per block
static struct { uint8_t* data; size_t size; long n, pos; long sleep_us; YR_MEMORY_BLOCK blk; } BI;
static const uint8_t* bi_fetch(YR_MEMORY_BLOCK* b) { return BI.data; }
static YR_MEMORY_BLOCK* bi_get(YR_MEMORY_BLOCK_ITERATOR* it)
{
  it->last_error = ERROR_SUCCESS;
  if (BI.pos >= BI.n) return NULL;
  if (BI.sleep_us > 0) usleep((useconds_t) BI.sleep_us);
  BI.blk.base = (uint64_t) BI.pos * BI.size;
  BI.blk.size = BI.size;
  BI.blk.context = NULL;
  BI.blk.fetch_data = bi_fetch;
  return &BI.blk;
}
static YR_MEMORY_BLOCK* bi_first(YR_MEMORY_BLOCK_ITERATOR* it) { BI.pos = 0; return bi_get(it); }
static YR_MEMORY_BLOCK* bi_next(YR_MEMORY_BLOCK_ITERATOR* it) { BI.pos++; return bi_get(it); }

static void do_scan_report(HL* s, const char* what, int rc, long ms)
{
  fprintf(s->out, " | %s rc=%d ms=%ld many=%d:%s slow=%d:%s\n", what, rc, ms, s->nmany, s->many[0] ? s->many : "-",
          s->nslow, s->slow[0] ? s->slow : "-");
}

static void do_cmd(HL* s, char* line)
{
  FILE* o = s->out;
  char* p = line;
  char* c = tok(&p);
  size_t len;
  if (!strcmp(c, "cfg"))
  {
    int name = cfg_name(tok(&p));
    uint32_t v = (uint32_t) strtoull(tok(&p), NULL, 10), back = 0;
    int rc = yr_set_configuration(name, &v);
    int rc2 = yr_get_configuration(name, &back);
    fprintf(o, "cfg rc=%d get=%d value=%u\n", rc, rc2, back);
  }
  else if (!strcmp(c, "getcfg"))
  {
    uint32_t a = 0, b = 0, d = 0;
    yr_get_configuration_uint32(YR_CONFIG_STACK_SIZE, &a);
    yr_get_configuration_uint32(YR_CONFIG_MAX_STRINGS_PER_RULE, &b);
    yr_get_configuration_uint32(YR_CONFIG_MAX_MATCH_DATA, &d);
    fprintf(o, "getcfg stack=%u strings=%u matchdata=%u\n", a, b, d);
  }
  else if (!strcmp(c, "newcompiler"))
  {
    s->errors = 0; s->stop = 0;
    int rc = yr_compiler_create(&s->compiler);
    if (rc == 0) { yr_compiler_set_callback(s->compiler, compile_cb, s);
      yr_compiler_set_include_callback(s->compiler, include_cb, include_free, s); }
    fprintf(o, "newcompiler rc=%d\n", rc);
  }
  else if (!strcmp(c, "file"))
  {
    char* name = tok(&p);
    if (s->nfiles < MAXF)
    {
      HFILE* f = &s->files[s->nfiles++];
      f->name = strdup(name);
      f->data = h_unhex(tok(&p), &f->len);
    }
  }
  else if (!strcmp(c, "add"))
  {
    uint8_t* src = h_unhex(tok(&p), &len);
    long t0 = now_ms();
    int e = yr_compiler_add_string(s->compiler, (const char*) src, NULL);
    fprintf(o, "add errors=%d last_error=%d ms=%ld\n", e, e ? s->compiler->last_error : 0, now_ms() - t0);
    s->errors += e;
    free(src);
  }
  else if (!strcmp(c, "getrules"))
  {
    if (s->errors > 0) { fprintf(o, "getrules skipped\n"); s->stop = 1; return; }
    int rc = yr_compiler_get_rules(s->compiler, &s->rules);
    fprintf(o, "getrules rc=%d\n", rc);
    if (rc != 0) s->stop = 1;
  }
  else if (!strcmp(c, "destroy"))
  {
    if (s->scanner) yr_scanner_destroy(s->scanner);
    if (s->rules) yr_rules_destroy(s->rules);
    if (s->compiler) yr_compiler_destroy(s->compiler);
    s->scanner = NULL; s->rules = NULL; s->compiler = NULL; s->stop = 0; s->errors = 0;
  }
  else if (!strcmp(c, "fill"))
  {
    int byte = atoi(tok(&p));
    size_t n = (size_t) strtoull(tok(&p), NULL, 10);
    free(s->buf);
    s->buf = (uint8_t*) malloc(n + 1);
    memset(s->buf, byte, n);
    s->buflen = n;
  }
  else if (!strcmp(c, "plant"))
  {
    size_t off = (size_t) strtoull(tok(&p), NULL, 10);
    uint8_t* b = h_unhex(tok(&p), &len);
    if (off + len <= s->buflen) memcpy(s->buf + off, b, len);
    free(b);
  }
  else if (!strcmp(c, "buf"))
  {
    free(s->buf);
    s->buf = h_unhex(tok(&p), &s->buflen);
  }
  else if (!strcmp(c, "scan"))
  {
    int timeout = atoi(tok(&p));
    s->ans_many = atoi(tok(&p));
    s->ans_slow = atoi(tok(&p));
    int flags = atoi(tok(&p));
    s->nmany = s->nslow = 0; s->many[0] = s->slow[0] = 0;
    fprintf(o, "scan");
    long t0 = now_ms();
    int rc = yr_rules_scan_mem(s->rules, s->buf, s->buflen, flags, scan_cb, s, timeout);
    do_scan_report(s, "scan", rc, now_ms() - t0);
  }
  else if (!strcmp(c, "scanner"))
  {
    int rc = yr_scanner_create(s->rules, &s->scanner);
    if (rc == 0) yr_scanner_set_callback(s->scanner, scan_cb, s);
    fprintf(o, "scanner rc=%d\n", rc);
  }
  else if (!strcmp(c, "stimeout")) yr_scanner_set_timeout(s->scanner, atoi(tok(&p)));
  else if (!strcmp(c, "sscan"))
  {
    s->ans_many = atoi(tok(&p));
    s->ans_slow = atoi(tok(&p));
    s->nmany = s->nslow = 0; s->many[0] = s->slow[0] = 0;
    fprintf(o, "scan");
    long t0 = now_ms();
    int rc = yr_scanner_scan_mem(s->scanner, s->buf, s->buflen);
    long ms = now_ms() - t0;
    // high-water mark of simultaneously live regexp fibers (fibers are recycled through the pool's free list)
    fprintf(o, " fibers=%d", s->scanner->re_fiber_pool.fiber_count);
    do_scan_report(s, "sscan", rc, ms);
  }
  else if (!strcmp(c, "blocks"))
  {
    // blocks <size> <nblocks> <sleep_us>
    BI.size = (size_t) strtoull(tok(&p), NULL, 10);
    BI.n = atol(tok(&p));
    BI.sleep_us = atol(tok(&p));
    free(BI.data);
    BI.data = (uint8_t*) malloc(BI.size + 1);
    memset(BI.data, 'a', BI.size);
  }
  else if (!strcmp(c, "bscan") || !strcmp(c, "rbscan"))
  {
    // bscan: yr_scanner_scan_mem_blocks on the current scanner (stimeout before); rbscan <timeout>: yr_rules_scan_mem_blocks
    YR_MEMORY_BLOCK_ITERATOR it;
    memset(&it, 0, sizeof it);
    it.first = bi_first; it.next = bi_next; it.file_size = NULL; it.last_error = ERROR_SUCCESS;
    s->ans_many = s->ans_slow = 0;
    s->nmany = s->nslow = 0; s->many[0] = s->slow[0] = 0;
    fprintf(o, "scan");
    long t0 = now_ms();
    int rc = c[0] == 'b' ? yr_scanner_scan_mem_blocks(s->scanner, &it)
                         : yr_rules_scan_mem_blocks(s->rules, &it, 0, scan_cb, s, atoi(tok(&p)));
    long ms = now_ms() - t0;
    fprintf(o, " blocks_delivered=%ld", BI.pos);
    do_scan_report(s, c, rc, ms);
  }
  else if (!strcmp(c, "smoke")) smoke(s);
  else if (*c) fprintf(o, "unknown command %s\n", c);
}

typedef struct { char** lines; int n; } CASE;

static void run_case(void* arg, FILE* out)
{
  CASE* cs = (CASE*) arg;
  HL* s = (HL*) calloc(1, sizeof(HL));
  s->out = out;
  for (int i = 0; i < cs->n; i++)
  {
    // after a failed compilation only the commands that need no rules run
    if (s->stop && strncmp(cs->lines[i], "smoke", 5) != 0 && strncmp(cs->lines[i], "destroy", 7) != 0 &&
        strncmp(cs->lines[i], "newcompiler", 11) != 0 && strncmp(cs->lines[i], "cfg", 3) != 0 &&
        strncmp(cs->lines[i], "getcfg", 6) != 0)
      continue;
    do_cmd(s, cs->lines[i]);
    fflush(out);
  }
}

int main(int argc, char** argv)
{
  int timeout = argc > 1 ? atoi(argv[1]) : 60;
  yr_initialize();
  char* line;
  CASE cs = {0};
  int cap = 0;
  char id[256] = "";
  int in_case = 0;
  while ((line = h_readline(stdin)) != NULL)
  {
    if (!strncmp(line, "case ", 5)) { strncpy(id, line + 5, 255); in_case = 1; cs.n = 0; free(line); continue; }
    if (!strcmp(line, "endcase"))
    {
      printf("case %s\n", id);
      long t0 = now_ms();
      h_in_child(run_case, &cs, timeout);
      printf("wall_ms=%ld\n", now_ms() - t0);
      printf("endcase %s\n", id);
      fflush(stdout);
      for (int i = 0; i < cs.n; i++) free(cs.lines[i]);
      cs.n = 0;
      in_case = 0;
      free(line);
      continue;
    }
    if (in_case)
    {
      if (cs.n == cap) { cap = cap ? cap * 2 : 64; cs.lines = (char**) realloc(cs.lines, cap * sizeof(char*)); }
      cs.lines[cs.n++] = line;
    }
    else free(line);
  }
  yr_finalize();
  return 0;
}
