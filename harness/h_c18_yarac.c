// C18: the real `yarac` binary built from /repo's current tree (cli/yarac.c compiled with -Dmain=yarac_main).
int yarac_main(int argc, const char** argv);
int main(int argc, const char** argv) { return yarac_main(argc, argv); }
