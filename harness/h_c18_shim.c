// C18: deterministic scheduler shim replacing cli/threading.c.
//
// Linked with the REAL cli/yara.c (compiled with -Dmain=yara_main), cli/args.c, cli/common.c and
// libyara.a, but WITHOUT cli/threading.c: the ten cli_* functions are defined here.  Real pthreads
// are created, but exactly one runs at a time: every mutex/semaphore/thread call is a scheduling
// point at which the calling thread announces the operation it wants to perform and blocks until
// the scheduler picks it; a second scheduling point follows every operation, so that the code
// between two operations is a step of its own.  The order is drawn from a PRNG (C18_SEED, C18_MODE)
// or replayed from a file (C18_REPLAY: thread ids separated by spaces).
//
// Trace (C18_TRACE), one line per scheduling decision, written BEFORE the chosen step runs:
//   <chosen tid> <queue_head> <queue_tail> <pending> [item]
// pending has one character per thread (0 = main thread): '.' not started or finished,
// 't' = between operations (always enabled), 'o' = an operation that is not part of the queue
// protocol (output mutex, thread start/join), and for queue operations
//   w = wait used_slots   v = wait unused_slots   r = release used_slots   s = release unused_slots
//   l = lock queue_mutex  u = unlock queue_mutex
// in UPPER case when the operation is enabled, lower case when it would block.
// [item] is present when the chosen operation is an unlock of the queue mutex after the thread
// changed queue_tail (the path it stored) or queue_head (the path it took).
// Last line: "END rc=<exit status>" or "DEADLOCK <pending>".
//
// Output discipline (gen/GenOutput.v, theorems output_under_mutex / match_group_atomic): the stdio
// functions are interposed at link time (-Wl,--wrap=printf,...: every call from cli/yara.c AND from
// libyara.a).  For every call that writes to stdout or stderr from a scanning thread the shim checks
// in its own mutex bookkeeping that the calling thread owns the output mutex; a write without it is
// logged as "UNLOCKED-WRITE <tid> <stdout|stderr> <first bytes>".  Before END one line per scanning
// thread "EVENTS <tid> <string>" gives its sequence of output-mutex and output events
// (L lock, U unlock, o one stdio call to stdout, e one to stderr), which checks/c18.py runs through
// the automaton of the generated model (must be a prefix of an execution of out_worker), and
// "WRITES <locked stdout> <unlocked stdout> <locked stderr> <unlocked stderr> <main thread>".
//
// The names of the shared objects of cli/yara.c come from the translator (lib/genqueue.py) as
// -DQ_HEAD=.. -DQ_TAIL=.. -DQ_RING=.. -DQ_MUTEX=.. -DQ_USED=.. -DQ_UNUSED=.. -DQ_SLOTS=.. -DQ_OUTMUTEX=..
#include <pthread.h>
#include <stdarg.h>
#include <semaphore.h>
#include <stdint.h>
#include <stdio.h>
#include <stdlib.h>
#include <string.h>
#include <time.h>
#include <unistd.h>

typedef pthread_mutex_t MUTEX;
typedef pthread_t THREAD;
typedef void* (*THREAD_START_ROUTINE)(void*);
typedef sem_t* SEMAPHORE;

extern int Q_HEAD;
extern int Q_TAIL;
extern struct { char* path; } Q_RING[];
extern MUTEX Q_MUTEX;
extern MUTEX Q_OUTMUTEX;
extern SEMAPHORE Q_USED;
extern SEMAPHORE Q_UNUSED;

int yara_main(int argc, const char** argv);

int __real_fprintf(FILE*, const char*, ...);
int __real_vfprintf(FILE*, const char*, va_list);
int __real_puts(const char*);
int __real_putchar(int);
int __real_fputs(const char*, FILE*);
int __real_fputc(int, FILE*);
size_t __real_fwrite(const void*, size_t, size_t, FILE*);

#define MAXT 40
enum { K_NONE = 0, K_TAU, K_OTHER, K_WAIT, K_RELEASE, K_LOCK, K_UNLOCK, K_JOIN, K_START };
enum { ST_UNUSED = 0, ST_PENDING, ST_RUNNING, ST_DONE };

typedef struct { int value; } SSEM;
typedef struct { MUTEX* addr; int owner; } SMTX;

typedef struct
{
  int state, kind;
  void* obj;       // SSEM* / SMTX* / target tid
  int target;
  pthread_t th;
  pthread_cond_t cv;
  THREAD_START_ROUTINE fn;
  void* arg;
  int head_at_lock, tail_at_lock;
} STHR;

static pthread_mutex_t G = PTHREAD_MUTEX_INITIALIZER;
static STHR T[MAXT];
static int nthr = 1, current = 0;
static SMTX M[8];
static int nmtx = 0;
static FILE* trace;
static uint64_t rng;
static int mode = 0;
static int* replay = NULL;
static long nreplay = 0, ireplay = 0;
static long steps = 0, max_steps = 5000000;
static __thread int me = 0;

static uint64_t rnd()
{
  rng += 0x9E3779B97F4A7C15ULL;
  uint64_t z = rng;
  z = (z ^ (z >> 30)) * 0xBF58476D1CE4E5B9ULL;
  z = (z ^ (z >> 27)) * 0x94D049BB133111EBULL;
  return z ^ (z >> 31);
}

static SMTX* find_mtx(MUTEX* m)
{
  for (int i = 0; i < nmtx; i++)
    if (M[i].addr == m) return &M[i];
  if (nmtx == 8) { fprintf(stderr, "shim: too many mutexes\n"); _exit(90); }
  M[nmtx].addr = m;
  M[nmtx].owner = -1;
  return &M[nmtx++];
}

static int is_enabled(int t)
{
  STHR* x = &T[t];
  if (x->state != ST_PENDING) return 0;
  switch (x->kind)
  {
  case K_WAIT: return ((SSEM*) x->obj)->value > 0;
  case K_LOCK: return ((SMTX*) x->obj)->owner < 0;
  case K_JOIN: return T[x->target].state == ST_DONE;
  default: return 1;
  }
}

static char pend_char(int t)
{
  STHR* x = &T[t];
  if (x->state != ST_PENDING) return '.';
  char c;
  switch (x->kind)
  {
  case K_TAU: return 't';
  case K_WAIT: c = (x->obj == (void*) Q_USED) ? 'w' : (x->obj == (void*) Q_UNUSED) ? 'v' : 'o'; break;
  case K_RELEASE: c = (x->obj == (void*) Q_USED) ? 'r' : (x->obj == (void*) Q_UNUSED) ? 's' : 'o'; break;
  case K_LOCK: c = (((SMTX*) x->obj)->addr == &Q_MUTEX) ? 'l' : 'o'; break;
  case K_UNLOCK: c = (((SMTX*) x->obj)->addr == &Q_MUTEX) ? 'u' : 'o'; break;
  default: c = 'o';
  }
  if (c != 'o' && is_enabled(t)) c = (char) (c - 32);
  if (c == 'o' && !is_enabled(t)) c = 'b';   // a blocked operation outside the queue protocol
  return c;
}

static void pend_string(char* buf)
{
  for (int t = 0; t < nthr; t++) buf[t] = pend_char(t);
  buf[nthr] = 0;
}

// called with G held by a thread that is PENDING or DONE: choose who runs next
static void pick_next(int from)
{
  int en[MAXT], n = 0;
  char buf[MAXT + 1];
  for (int t = 0; t < nthr; t++)
    if (is_enabled(t)) en[n++] = t;
  pend_string(buf);
  if (n == 0)
  {
    int alive = 0;
    for (int t = 0; t < nthr; t++)
      if (T[t].state != ST_DONE && T[t].state != ST_UNUSED) alive++;
    if (alive == 0) return;   // everything finished (cannot happen: main never becomes DONE here)
    fprintf(trace, "DEADLOCK %s\n", buf);
    fflush(trace);
    fflush(stdout);
    fflush(stderr);
    _exit(86);
  }
  if (++steps > max_steps)
  {
    fprintf(trace, "STEPLIMIT %s\n", buf);
    fflush(trace);
    _exit(87);
  }
  int c = -1;
  if (replay)
  {
    if (ireplay >= nreplay) { fprintf(trace, "REPLAY-EXHAUSTED %s\n", buf); fflush(trace); _exit(88); }
    c = replay[ireplay++];
    if (c < 0 || c >= nthr || !is_enabled(c)) { fprintf(trace, "REPLAY-DIVERGED want=%d %s\n", c, buf); fflush(trace); _exit(88); }
  }
  else
  {
    int prod_ok = is_enabled(0), from_ok = (from >= 0 && is_enabled(from));
    switch (mode)
    {
    case 1:   // producer first: the queue runs full
      if (prod_ok && rnd() % 16 != 0) c = 0;
      break;
    case 2:   // consumers first: the queue runs empty
      if (n > 1 && prod_ok && rnd() % 16 != 0)
      {
        int k = (int) (rnd() % (uint64_t) (n - 1));
        for (int i = 0, j = 0; i < n; i++)
          if (en[i] != 0 && j++ == k) c = en[i];
      }
      break;
    case 3:   // few preemptions: stay on the same thread
      if (from_ok && rnd() % 8 != 0) c = from;
      break;
    case 4:   // round robin
      for (int i = 1; i <= nthr && c < 0; i++)
        if (is_enabled((from + i + nthr) % nthr)) c = (from + i + nthr) % nthr;
      break;
    case 5:   // starve thread 1 whenever possible
      if (n > 1)
      {
        int k;
        do k = en[rnd() % (uint64_t) n]; while (k == 1);
        c = k;
      }
      break;
    case 6:   // bursts: change the preferred thread from time to time
    {
      static int fav = 0;
      if (rnd() % 24 == 0) fav = (int) (rnd() % (uint64_t) nthr);
      if (is_enabled(fav) && rnd() % 4 != 0) c = fav;
      break;
    }
    default: break;
    }
    if (c < 0) c = en[rnd() % (uint64_t) n];
  }
  // item moved by the critical section that this unlock ends
  const char* item = "";
  STHR* x = &T[c];
  if (x->kind == K_UNLOCK && ((SMTX*) x->obj)->addr == &Q_MUTEX)
  {
    if (Q_TAIL != x->tail_at_lock && x->tail_at_lock >= 0 && x->tail_at_lock < Q_SLOTS)
      item = Q_RING[x->tail_at_lock].path;
    else if (Q_HEAD != x->head_at_lock && x->head_at_lock >= 0 && x->head_at_lock < Q_SLOTS)
      item = Q_RING[x->head_at_lock].path;
    if (item == NULL) item = "(null)";
  }
  fprintf(trace, "%d %d %d %s%s%s\n", c, Q_HEAD, Q_TAIL, buf, item[0] ? " " : "", item);
  current = c;
  pthread_cond_signal(&T[c].cv);
}

// ---------------------------------------------------------------- output discipline monitor
static char* evbuf[MAXT];
static size_t evlen[MAXT], evcap[MAXT];
static long wr_locked[2], wr_unlocked[2], wr_main, unlocked_logged;

static void ev_append(int t, char c)
{
  if (t <= 0 || t >= MAXT) return;
  if (evlen[t] + 2 > evcap[t])
  {
    evcap[t] = evcap[t] ? evcap[t] * 2 : 4096;
    evbuf[t] = (char*) realloc(evbuf[t], evcap[t]);
  }
  evbuf[t][evlen[t]++] = c;
  evbuf[t][evlen[t]] = 0;
}

// one stdio call writing to stdout (which = 0) or stderr (which = 1) by the running thread
static void note_write(int which, const char* what)
{
  if (me == 0) { wr_main++; return; }
  pthread_mutex_lock(&G);
  int held = find_mtx(&Q_OUTMUTEX)->owner == me;
  ev_append(me, which ? 'e' : 'o');
  if (held) wr_locked[which]++;
  else
  {
    wr_unlocked[which]++;
    if (unlocked_logged++ < 40)
    {
      char b[40];
      int k = 0;
      for (; what && what[k] && k < 32; k++) b[k] = (what[k] >= 33 && what[k] <= 126) ? what[k] : '_';
      b[k] = 0;
      __real_fprintf(trace, "UNLOCKED-WRITE %d %s %s\n", me, which ? "stderr" : "stdout", b);
    }
  }
  pthread_mutex_unlock(&G);
}

static int which_stream(FILE* f) { return f == trace ? -1 : f == stdout ? 0 : f == stderr ? 1 : -1; }

int __wrap_printf(const char* fmt, ...)
{
  va_list ap;
  note_write(0, fmt);
  va_start(ap, fmt);
  int r = __real_vfprintf(stdout, fmt, ap);
  va_end(ap);
  return r;
}
int __wrap_vprintf(const char* fmt, va_list ap) { note_write(0, fmt); return __real_vfprintf(stdout, fmt, ap); }
int __wrap_fprintf(FILE* f, const char* fmt, ...)
{
  va_list ap;
  int w = which_stream(f);
  if (w >= 0) note_write(w, fmt);
  va_start(ap, fmt);
  int r = __real_vfprintf(f, fmt, ap);
  va_end(ap);
  return r;
}
int __wrap_vfprintf(FILE* f, const char* fmt, va_list ap)
{
  int w = which_stream(f);
  if (w >= 0) note_write(w, fmt);
  return __real_vfprintf(f, fmt, ap);
}
int __wrap_puts(const char* s) { note_write(0, s); return __real_puts(s); }
int __wrap_putchar(int c) { char b[2] = {(char) c, 0}; note_write(0, b); return __real_putchar(c); }
int __wrap_fputs(const char* s, FILE* f) { int w = which_stream(f); if (w >= 0) note_write(w, s); return __real_fputs(s, f); }
int __wrap_fputc(int c, FILE* f) { char b[2] = {(char) c, 0}; int w = which_stream(f); if (w >= 0) note_write(w, b); return __real_fputc(c, f); }
int __wrap_putc(int c, FILE* f) { char b[2] = {(char) c, 0}; int w = which_stream(f); if (w >= 0) note_write(w, b); return __real_fputc(c, f); }
size_t __wrap_fwrite(const void* p, size_t a, size_t b, FILE* f)
{
  int w = which_stream(f);
  if (w >= 0) { char t[33]; size_t n = a * b < 32 ? a * b : 32; memcpy(t, p, n); t[n] = 0; note_write(w, t); }
  return __real_fwrite(p, a, b, f);
}

// scheduling point: announce (kind, obj), wait to be chosen, perform the operation
static void sched_point(int kind, void* obj, int target)
{
  pthread_mutex_lock(&G);
  STHR* x = &T[me];
  x->kind = kind;
  x->obj = obj;
  x->target = target;
  x->state = ST_PENDING;
  current = -1;
  pick_next(me);
  while (current != me) pthread_cond_wait(&x->cv, &G);
  x->state = ST_RUNNING;
  switch (kind)
  {
  case K_WAIT: ((SSEM*) obj)->value--; break;
  case K_RELEASE: ((SSEM*) obj)->value++; break;
  case K_LOCK:
    ((SMTX*) obj)->owner = me;
    if (((SMTX*) obj)->addr == &Q_MUTEX) { x->head_at_lock = Q_HEAD; x->tail_at_lock = Q_TAIL; }
    if (((SMTX*) obj)->addr == &Q_OUTMUTEX) ev_append(me, 'L');
    break;
  case K_UNLOCK:
    ((SMTX*) obj)->owner = -1;
    if (((SMTX*) obj)->addr == &Q_OUTMUTEX) ev_append(me, 'U');
    break;
  default: break;
  }
  pthread_mutex_unlock(&G);
}

static void op(int kind, void* obj, int target)
{
  sched_point(kind, obj, target);
  sched_point(K_TAU, NULL, 0);
}

// ---------------------------------------------------------------- the interface of cli/threading.h
int cli_mutex_init(MUTEX* mutex)
{
  pthread_mutex_lock(&G);
  find_mtx(mutex)->owner = -1;
  pthread_mutex_unlock(&G);
  return 0;
}

void cli_mutex_destroy(MUTEX* mutex) {}

void cli_mutex_lock(MUTEX* mutex)
{
  pthread_mutex_lock(&G);
  SMTX* m = find_mtx(mutex);
  pthread_mutex_unlock(&G);
  op(K_LOCK, m, 0);
}

void cli_mutex_unlock(MUTEX* mutex)
{
  pthread_mutex_lock(&G);
  SMTX* m = find_mtx(mutex);
  pthread_mutex_unlock(&G);
  op(K_UNLOCK, m, 0);
}

int cli_semaphore_init(SEMAPHORE* semaphore, int value)
{
  SSEM* s = (SSEM*) calloc(1, sizeof(SSEM) > sizeof(sem_t) ? sizeof(SSEM) : sizeof(sem_t));
  s->value = value;
  *semaphore = (SEMAPHORE) s;
  if (trace) fprintf(trace, "SEMINIT %s %d\n", semaphore == &Q_USED ? "used" : semaphore == &Q_UNUSED ? "unused" : "other", value);
  return 0;
}

void cli_semaphore_destroy(SEMAPHORE* semaphore) { free(*semaphore); }

int cli_semaphore_wait(SEMAPHORE* semaphore, time_t deadline)
{
  op(K_WAIT, (void*) *semaphore, 0);
  return 0;   // ERROR_SUCCESS: deadlines are outside the model
}

void cli_semaphore_release(SEMAPHORE* semaphore) { op(K_RELEASE, (void*) *semaphore, 0); }

static void* wrapper(void* p)
{
  int id = (int) (intptr_t) p;
  me = id;
  pthread_mutex_lock(&G);
  while (current != id) pthread_cond_wait(&T[id].cv, &G);
  T[id].state = ST_RUNNING;
  pthread_mutex_unlock(&G);
  sched_point(K_TAU, NULL, 0);
  T[id].fn(T[id].arg);
  pthread_mutex_lock(&G);
  T[id].state = ST_DONE;
  current = -1;
  pick_next(-1);
  pthread_mutex_unlock(&G);
  return NULL;
}

int cli_create_thread(THREAD* thread, THREAD_START_ROUTINE start_routine, void* param)
{
  pthread_mutex_lock(&G);
  if (nthr >= MAXT) { pthread_mutex_unlock(&G); return 1; }
  int id = nthr++;
  T[id].state = ST_PENDING;
  T[id].kind = K_START;
  T[id].fn = start_routine;
  T[id].arg = param;
  pthread_cond_init(&T[id].cv, NULL);
  pthread_mutex_unlock(&G);
  int rc = pthread_create(&T[id].th, NULL, wrapper, (void*) (intptr_t) id);
  *thread = T[id].th;
  return rc;
}

void cli_thread_join(THREAD* thread)
{
  int target = -1;
  pthread_mutex_lock(&G);
  for (int t = 1; t < nthr; t++)
    if (pthread_equal(T[t].th, *thread)) target = t;
  pthread_mutex_unlock(&G);
  if (target < 0) return;
  op(K_JOIN, NULL, target);
  pthread_join(*thread, NULL);
}

int main(int argc, const char** argv)
{
  const char* e;
  trace = stderr;
  if ((e = getenv("C18_TRACE")) != NULL) trace = fopen(e, "w");
  if (trace == NULL) return 91;
  setvbuf(trace, NULL, _IOLBF, 1 << 12);   // line buffered: the trace must survive a crash of the code under test
  rng = (e = getenv("C18_SEED")) ? strtoull(e, NULL, 10) : 1;
  mode = (e = getenv("C18_MODE")) ? atoi(e) : 0;
  if ((e = getenv("C18_MAXSTEPS")) != NULL) max_steps = atol(e);
  if ((e = getenv("C18_REPLAY")) != NULL)
  {
    FILE* f = fopen(e, "r");
    if (!f) return 92;
    long cap = 1 << 16;
    replay = (int*) malloc(cap * sizeof(int));
    int v;
    while (fscanf(f, "%d", &v) == 1)
    {
      if (nreplay == cap) { cap *= 2; replay = (int*) realloc(replay, cap * sizeof(int)); }
      replay[nreplay++] = v;
    }
    fclose(f);
  }
  T[0].state = ST_RUNNING;
  pthread_cond_init(&T[0].cv, NULL);
  me = 0;
  int rc = yara_main(argc, argv);
  fflush(stdout);
  for (int t = 1; t < nthr; t++) fprintf(trace, "EVENTS %d %s\n", t, evbuf[t] ? evbuf[t] : "-");
  fprintf(trace, "WRITES %ld %ld %ld %ld %ld\n", wr_locked[0], wr_unlocked[0], wr_locked[1], wr_unlocked[1], wr_main);
  fprintf(trace, "END rc=%d\n", rc);
  fflush(trace);
  return rc;
}
