// h_load: feeds arbitrary bytes to yr_rules_load_stream; on success re-saves the loaded rules
// (address-free canonical form) and runs a smoke scan.  One case per input line:
//   load <hex>            -> "rc=<n>" ["resave=<hex>" "smoke=<rc>"] | "crash sig=<n>"
#include "hcommon.h"

static int smoke_cb(YR_SCAN_CONTEXT* ctx, int msg, void* data, void* ud) { return CALLBACK_CONTINUE; }

#include <dirent.h>
#include <unistd.h>
static int open_fds(void)
{
  int n = 0;
  DIR* d = opendir("/proc/self/fd");
  if (d == NULL) return -1;
  while (readdir(d) != NULL) n++;
  closedir(d);
  return n;
}

// the same bytes through the path entry point yr_rules_load: "filerc=<n> fds=<before>/<after>"; a loaded rule set is destroyed before counting
static void do_loadfile(HMEM* in, FILE* out)
{
  char path[] = "/dev/shm/h_load_XXXXXX";
  int fd = mkstemp(path);
  if (fd < 0) { fprintf(out, "filerc=skip\n"); return; }
  if (write(fd, in->data, in->len) != (ssize_t) in->len) { close(fd); unlink(path); fprintf(out, "filerc=skip\n"); return; }
  close(fd);
  int before = open_fds();
  YR_RULES* rules = NULL;
  int rc = yr_rules_load(path, &rules);
  if (rc == ERROR_SUCCESS && rules != NULL) yr_rules_destroy(rules);
  int after = open_fds();
  unlink(path);
  fprintf(out, "filerc=%d fds=%d/%d\n", rc, before, after);
  fflush(out);
}

static void do_load(void* arg, FILE* out)
{
  HMEM* in = (HMEM*) arg;
  do_loadfile(in, out);
  YR_STREAM st;
  st.user_data = in;
  st.read = (YR_STREAM_READ_FUNC) hmem_read;
  st.write = NULL;
  YR_RULES* rules = NULL;
  int rc = yr_rules_load_stream(&st, &rules);
  fprintf(out, "rc=%d\n", rc);
  fflush(out);
  if (rc == ERROR_SUCCESS)
  {
    HMEM o = {0};
    YR_STREAM ws;
    ws.user_data = &o;
    ws.write = (YR_STREAM_WRITE_FUNC) hmem_write;
    ws.read = NULL;
    int rc2 = yr_rules_save_stream(rules, &ws);
    fprintf(out, "resave_rc=%d resave=", rc2);
    h_puthex(out, o.data, o.len);
    fprintf(out, "\n");
    fflush(out);
    static const uint8_t text[] = "hello world abc 1234567890 abcabc";
    int rc3 = yr_rules_scan_mem(rules, text, sizeof text - 1, 0, smoke_cb, NULL, 5);
    fprintf(out, "smoke=%d\n", rc3);
    yr_rules_destroy(rules);
  }
}

int main(int argc, char** argv)
{
  yr_initialize();
  char* line;
  while ((line = h_readline(stdin)) != NULL)
  {
    if (strncmp(line, "load ", 5) == 0)
    {
      HMEM in = {0};
      in.data = h_unhex(line + 5, &in.len);
      printf("case\n");
      h_in_child(do_load, &in, 20);
      printf("end\n");
      free(in.data);
    }
    free(line);
  }
  yr_finalize();
  return 0;
}
