// C06 tie (a): evaluates THE REAL bounds predicates of the current tree on given operands.
//   fits_in_pe / fits_in_dex            : the macros of <yara/pe_utils.h> / <yara/dex.h> (include dir of the build = snapshot of the tree)
//   is_valid_ptr, macho guards, loop cond: source text cut out by lib/genbounds.py, in c06_extracted.h (generated, -I<scratch>)
// and pe_rva_to_offset (libyara.a) on given files, printing what the hand model Model/PeRva.v needs as input.
// Built in the "plain" variant: the operands are arbitrary 64-bit patterns, pointer arithmetic on them is
// outside ISO C; what is compared is what the compiled code computes.
//
// one command per line -> one result line
//   pe|dex|elf <base> <size> <p> <n>
//   mc1|mc2 <data> <size> <command> <parsed_size> <cmdsize>
//   fat <size> <offset> <asize>
//   loop <i> <nsec>
//   exo|exf|exn <avail> <NumberOfFunctions> <NumberOfNames>
//   rva <hex file> <rva> <rva> ...
#include "hcommon.h"
#include <stdbool.h>
#include <limits.h>
#include <yara/pe.h>
#include <yara/pe_utils.h>
#include <yara/dex.h>
#include <yara/macho.h>
#include <yara/endian.h>
#include <yara/utils.h>
#include "c06_extracted.h"

#define NOINL __attribute__((noinline))

static NOINL int ev_pe(PE* pe, uint8_t* p, size_t n) { return fits_in_pe(pe, p, n) ? 1 : 0; }
static NOINL int ev_dex(DEX* dex, uint8_t* p, size_t n) { return fits_in_dex(dex, p, n) ? 1 : 0; }
static NOINL int ev_elf(const void* base, size_t size, const void* p, uint64_t n) { return is_valid_ptr(base, size, p, n) ? 1 : 0; }

int main(void)
{
  char* line;
  while ((line = h_readline(stdin)) != NULL)
  {
    char cmd[16] = "";
    unsigned long long a[6] = {0};
    char* rest = line;
    int k = 0;
    sscanf(line, "%15s%n", cmd, &k);
    rest = line + k;
    if (strcmp(cmd, "rva") != 0)
    {
      char* e = rest;
      for (int i = 0; i < 6; i++) a[i] = strtoull(e, &e, 10);
    }
    if (!strcmp(cmd, "pe"))
    {
      PE pes; memset(&pes, 0, sizeof pes);
      pes.data = (const uint8_t*) (uintptr_t) a[0]; pes.data_size = (size_t) a[1];
      printf("%d\n", ev_pe(&pes, (uint8_t*) (uintptr_t) a[2], (size_t) a[3]));
    }
    else if (!strcmp(cmd, "dex"))
    {
      DEX d; memset(&d, 0, sizeof d);
      d.data = (const uint8_t*) (uintptr_t) a[0]; d.data_size = (size_t) a[1];
      printf("%d\n", ev_dex(&d, (uint8_t*) (uintptr_t) a[2], (size_t) a[3]));
    }
    else if (!strcmp(cmd, "elf"))
      printf("%d\n", ev_elf((const void*) (uintptr_t) a[0], (size_t) a[1], (const void*) (uintptr_t) a[2], (uint64_t) a[3]));
    else if (!strcmp(cmd, "mc1") || !strcmp(cmd, "mc2"))
    {
      yr_load_command_t cs; cs.cmd = 0; cs.cmdsize = (uint32_t) a[4];
      int r = cmd[2] == '1' ? c06_macho_cmd_ok_1((void*) (uintptr_t) a[0], a[1], (void*) (uintptr_t) a[2], a[3], cs)
                            : c06_macho_cmd_ok_2((void*) (uintptr_t) a[0], a[1], (void*) (uintptr_t) a[2], a[3], cs);
      printf("%d\n", r);
    }
    else if (!strcmp(cmd, "fat"))
    {
      yr_fat_arch_64_t arch; memset(&arch, 0, sizeof arch);
      arch.offset = a[1]; arch.size = a[2];
      printf("%d\n", c06_macho_fat_arch_ok(a[0], arch));
    }
    else if (!strcmp(cmd, "exo") || !strcmp(cmd, "exf") || !strcmp(cmd, "exn"))
    {
      // <avail> <NumberOfFunctions> <NumberOfNames>: the guards of pe_parse_exports as written in pe.c
      IMAGE_EXPORT_DIRECTORY ed; memset(&ed, 0, sizeof ed);
      ed.NumberOfFunctions = (DWORD) a[1]; ed.NumberOfNames = (DWORD) a[2];
      int r = cmd[2] == 'o' ? c06_exp_ordinals_rejects((size_t) a[0], &ed)
            : cmd[2] == 'f' ? c06_exp_functions_rejects((size_t) a[0], &ed) : c06_exp_names_rejects((size_t) a[0], &ed);
      printf("%d\n", r);
    }
    else if (!strcmp(cmd, "loop"))
    {
      IMAGE_NT_HEADERS32 h; memset(&h, 0, sizeof h);
      h.FileHeader.NumberOfSections = (WORD) a[1];
      PE pes; memset(&pes, 0, sizeof pes);
      pes.header = &h;
      printf("%d\n", c06_pe_rva_loop_cond(&pes, (int) a[0]) ? 1 : 0);
    }
    else if (!strcmp(cmd, "rva"))
    {
      char* e = rest;
      while (*e == ' ') e++;
      char* sp = strchr(e, ' ');
      if (sp) *sp = 0;
      size_t len;
      uint8_t* d = h_unhex(e, &len);
      // exact-size heap copy (no trailing NUL byte inside the object)
      uint8_t* data = (uint8_t*) malloc(len ? len : 1);
      memcpy(data, d, len);
      free(d);
      PIMAGE_NT_HEADERS32 h = pe_get_header(data, len);
      if (h == NULL) printf("rva nohdr\n");
      else
      {
        PE pes; memset(&pes, 0, sizeof pes);
        PE* pe = &pes;
        pe->data = data; pe->data_size = len; pe->header = h;
        PIMAGE_SECTION_HEADER s = IMAGE_FIRST_SECTION(pe->header);
        unsigned nsec = yr_le16toh(h->FileHeader.NumberOfSections);
        printf("rva size=%zu first=%lld nsec=%u fa=%u sa=%u secs=", len, (long long) ((uint8_t*) s - data), nsec,
               (unsigned) yr_le32toh(OptionalHeader(pe, FileAlignment)), (unsigned) yr_le32toh(OptionalHeader(pe, SectionAlignment)));
        for (unsigned i = 0; i < nsec && i < 4096; i++, s++)
        {
          if (!struct_fits_in_pe(pe, s, IMAGE_SECTION_HEADER)) break;
          printf("%s%u:%u:%u:%u", i ? "," : "", (unsigned) yr_le32toh(s->VirtualAddress), (unsigned) yr_le32toh(s->Misc.VirtualSize),
                 (unsigned) yr_le32toh(s->SizeOfRawData), (unsigned) yr_le32toh(s->PointerToRawData));
        }
        printf(" res=");
        char* q = sp ? sp + 1 : "";
        int first = 1;
        while (*q)
        {
          char* e2;
          unsigned long long rva = strtoull(q, &e2, 10);
          if (e2 == q) break;
          q = e2;
          printf("%s%lld", first ? "" : ",", (long long) pe_rva_to_offset(pe, rva));
          first = 0;
        }
        printf("\n");
      }
      free(data);
    }
    else
      printf("error\n");
    free(line);
  }
  return 0;
}
