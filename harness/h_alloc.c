// h_alloc: allocation-failure driver for C16.
// Link with -Wl,--wrap=malloc,--wrap=calloc,--wrap=realloc,--wrap=strdup,--wrap=strndup,--wrap=free
// Every allocation libyara.a (and this file) makes goes through the wrappers below: they count
// allocations made while the injection window is open and make the k-th one (optionally every
// later one too) return NULL; a live-allocation counter (successful allocations minus frees) is
// kept at all times.
//
// Reads cases from stdin (case <id> / commands / endcase), each run in a forked child:
//   src <hex>                 main rule source        file <name> <hex>   include file
//   data <hex> | datafile <path>                      scan data
//   window <init,compile,save,load,screate,scan>      phases in which the injection is active
//   run <k_from> <k_to> <sticky> <lsan_each>          scenario level: one pipeline per k (k=0: baseline)
//   fn <function> <k> <sticky> <args...>              function level (see do_fn)
#include "hcommon.h"
#include <errno.h>
#include <execinfo.h>
#include <yara/arena.h>
#include <yara/atoms.h>
#include <yara/notebook.h>
#include <yara/stack.h>
#include <yara/hash.h>
#include <yara/mem.h>

void* __real_malloc(size_t);
void* __real_calloc(size_t, size_t);
void* __real_realloc(void*, size_t);
char* __real_strdup(const char*);
char* __real_strndup(const char*, size_t);
void __real_free(void*);

static volatile long g_live = 0;     // live allocations made through the wrappers
static long g_count = 0;             // allocations requested while the window is open
static long g_fail_at = 0;           // 0 = never
static int g_sticky = 0;             // fail every allocation from g_fail_at on
static int g_active = 0;             // window open
static long g_fired = 0;             // failures injected
static int g_case_k = 0;

static int should_fail(void)
{
  if (!g_active) return 0;
  g_count++;
  if (g_fail_at > 0 && (g_count == g_fail_at || (g_sticky && g_count > g_fail_at)))
  {
    if (g_fired == 0)
    {
      // where the first injected failure happened: raw return addresses, resolved by the check
      void* bt[12];
      int n = backtrace(bt, 12);
      char line[512];
      int len = snprintf(line, sizeof line, "INJECT k=%d bt=", g_case_k);
      for (int i = 0; i < n && len < 480; i++) len += snprintf(line + len, sizeof line - len, "%p,", bt[i]);
      line[len++] = '\n';
      if (write(2, line, len) < 0) {}
    }
    g_fired++;
    errno = ENOMEM;
    return 1;
  }
  return 0;
}

void* __wrap_malloc(size_t n)
{
  if (should_fail()) return NULL;
  void* p = __real_malloc(n);
  if (p) g_live++;
  return p;
}

void* __wrap_calloc(size_t a, size_t b)
{
  if (should_fail()) return NULL;
  void* p = __real_calloc(a, b);
  if (p) g_live++;
  return p;
}

void* __wrap_realloc(void* q, size_t n)
{
  if (should_fail()) return NULL;
  void* p = __real_realloc(q, n);
  if (q == NULL && p != NULL) g_live++;
  return p;
}

char* __wrap_strdup(const char* s)
{
  if (should_fail()) return NULL;
  char* p = __real_strdup(s);
  if (p) g_live++;
  return p;
}

char* __wrap_strndup(const char* s, size_t n)
{
  if (should_fail()) return NULL;
  char* p = __real_strndup(s, n);
  if (p) g_live++;
  return p;
}

void __wrap_free(void* p)
{
  if (p) g_live--;
  __real_free(p);
}

int __lsan_do_recoverable_leak_check(void) __attribute__((weak));

// ------------------------------------------------------------------ scenario level
#define W_INIT 1
#define W_COMPILE 2
#define W_SAVE 4
#define W_LOAD 8
#define W_SCREATE 16
#define W_SCAN 32

#define MAXF 16
typedef struct { char* name; uint8_t* data; size_t len; } HFILE;
static HFILE g_files[MAXF];
static int g_nfiles;
static uint8_t* g_src;
static size_t g_srclen;
static uint8_t* g_data;
static size_t g_datalen;
static int g_window;

#define IMG_CAP (24u << 20)
static uint8_t g_img[IMG_CAP];
static size_t g_imglen, g_imgpos;

static size_t img_write(const void* ptr, size_t size, size_t count, void* ud)
{
  size_t n = size * count;
  if (g_imglen + n > IMG_CAP) return 0;
  memcpy(g_img + g_imglen, ptr, n);
  g_imglen += n;
  return count;
}

static size_t img_read(void* ptr, size_t size, size_t count, void* ud)
{
  if (size == 0 || count == 0) return 0;
  size_t avail = (g_imglen - g_imgpos) / size;
  size_t k = avail < count ? avail : count;
  memcpy(ptr, g_img + g_imgpos, k * size);
  g_imgpos += k * size;
  if (k < count) g_imgpos = g_imglen;
  return k;
}

// include callback: the library frees the text through include_free, so the copy is made with the
// real allocator and does not count
static const char* include_cb(const char* name, const char* calling_file, const char* calling_ns, void* ud)
{
  for (int i = 0; i < g_nfiles; i++)
    if (strcmp(g_files[i].name, name) == 0)
    {
      char* c = (char*) __real_malloc(g_files[i].len + 1);
      memcpy(c, g_files[i].data, g_files[i].len);
      c[g_files[i].len] = 0;
      return c;
    }
  return NULL;
}

static void include_free(const char* p, void* ud) { __real_free((void*) p); }

static int g_nerr, g_lasterr;
static void compile_cb(int level, const char* file, int line, const YR_RULE* rule, const char* msg, void* ud)
{
  if (level == YARA_ERROR_LEVEL_ERROR) g_nerr++;
  if (level == YARA_ERROR_LEVEL_ERROR && g_case_k == 0 && g_window != 0)
  {
    char m[400];
    int l = snprintf(m, sizeof m, "COMPILE-ERROR line %d: %s\n", line, msg);
    if (write(2, m, l) < 0) {}
  }
}

static char g_sig[4096];
static size_t g_siglen;
static int scan_cb(YR_SCAN_CONTEXT* ctx, int msg, void* data, void* ud)
{
  if (msg == CALLBACK_MSG_RULE_MATCHING)
  {
    YR_RULE* r = (YR_RULE*) data;
    size_t n = strlen(r->identifier);
    if (g_siglen + n + 2 < sizeof g_sig)
    {
      memcpy(g_sig + g_siglen, r->identifier, n);
      g_siglen += n;
      g_sig[g_siglen++] = ',';
      g_sig[g_siglen] = 0;
    }
  }
  return CALLBACK_CONTINUE;
}

static void win(int phase) { g_active = (g_window & phase) != 0; }

typedef struct
{
  const char* phase;   // phase that failed ("-" when the pipeline completed)
  int rc;
  int errs;
  char sig[4096];
} PRES;

// compile / save / load / create scanner / scan / destroy; injection open in the phases of `window`
static void pipeline(const uint8_t* src, const uint8_t* data, size_t datalen, PRES* r)
{
  YR_COMPILER* c = NULL;
  YR_RULES* rules = NULL;
  YR_RULES* loaded = NULL;
  YR_SCANNER* sc = NULL;
  int rc;
  int inited = 0;
  r->phase = "-";
  r->rc = 0;
  r->errs = 0;
  r->sig[0] = 0;
  g_nerr = 0;

  win(W_INIT);
  rc = yr_initialize();
  g_active = 0;
  inited = 1;   // yr_finalize is due even after a failed yr_initialize (init_count was incremented)
  if (rc != ERROR_SUCCESS) { r->phase = "init"; r->rc = rc; goto cleanup; }

  win(W_COMPILE);
  rc = yr_compiler_create(&c);
  if (rc != ERROR_SUCCESS) { g_active = 0; r->phase = "compile.create"; r->rc = rc; goto cleanup; }
  yr_compiler_set_callback(c, compile_cb, NULL);
  yr_compiler_set_include_callback(c, include_cb, include_free, NULL);
  rc = yr_compiler_define_integer_variable(c, "ext_i", 1);
  if (rc == ERROR_SUCCESS) rc = yr_compiler_define_string_variable(c, "ext_s", "abc");
  if (rc == ERROR_SUCCESS) rc = yr_compiler_define_boolean_variable(c, "ext_b", 1);
  if (rc != ERROR_SUCCESS) { g_active = 0; r->phase = "compile.define"; r->rc = rc; goto cleanup; }
  r->errs = yr_compiler_add_string(c, (const char*) src, NULL);
  if (r->errs != 0) { g_active = 0; r->phase = "compile.add"; r->rc = c->last_error; goto cleanup; }
  rc = yr_compiler_get_rules(c, &rules);
  if (rc != ERROR_SUCCESS) { g_active = 0; r->phase = "compile.get_rules"; r->rc = rc; goto cleanup; }
  yr_compiler_destroy(c);
  c = NULL;
  g_active = 0;

  {
    YR_STREAM st;
    g_imglen = 0;
    st.user_data = NULL;
    st.write = img_write;
    st.read = img_read;
    win(W_SAVE);
    rc = yr_rules_save_stream(rules, &st);
    g_active = 0;
    if (rc != ERROR_SUCCESS) { r->phase = "save"; r->rc = rc; goto cleanup; }
    g_imgpos = 0;
    win(W_LOAD);
    rc = yr_rules_load_stream(&st, &loaded);
    g_active = 0;
    if (rc != ERROR_SUCCESS) { r->phase = "load"; r->rc = rc; loaded = NULL; goto cleanup; }
  }

  win(W_SCREATE);
  rc = yr_scanner_create(loaded, &sc);
  if (rc != ERROR_SUCCESS) { g_active = 0; sc = NULL; r->phase = "screate"; r->rc = rc; goto cleanup; }
  rc = yr_scanner_define_integer_variable(sc, "ext_i", 1);
  if (rc == ERROR_SUCCESS) rc = yr_scanner_define_string_variable(sc, "ext_s", "abcd");
  g_active = 0;
  if (rc != ERROR_SUCCESS) { r->phase = "screate.define"; r->rc = rc; goto cleanup; }

  yr_scanner_set_callback(sc, scan_cb, NULL);
  yr_scanner_set_timeout(sc, 30);
  g_siglen = 0;
  g_sig[0] = 0;
  win(W_SCAN);
  rc = yr_scanner_scan_mem(sc, data, datalen);
  g_active = 0;
  if (rc != ERROR_SUCCESS) { r->phase = "scan"; r->rc = rc; goto cleanup; }
  strcpy(r->sig, g_sig);

cleanup:
  g_active = 0;
  if (sc) yr_scanner_destroy(sc);
  if (loaded) yr_rules_destroy(loaded);
  if (rules) yr_rules_destroy(rules);
  if (c) yr_compiler_destroy(c);
  if (inited) yr_finalize();
}

static const char* FOLLOW_SRC = "rule ok { strings: $a = \"needle\" $b = /ne+d[a-z]e/ condition: $a and $b and ext_i == 1 }";
static const char* FOLLOW_DATA = "xx needle yy";

static void run_range(FILE* out, int kfrom, int kto, int sticky, int lsan_each)
{
  PRES r;
  for (int k = kfrom; k <= kto; k++)
  {
    long base = g_live;
    g_case_k = k;
    fprintf(out, "begin k=%d\n", k);
    fflush(out);
    { char m[64]; int l = snprintf(m, sizeof m, "BEGIN k=%d\n", k); if (write(2, m, l) < 0) {} }
    g_count = 0;
    g_fired = 0;
    g_fail_at = k;
    g_sticky = sticky;
    pipeline(g_src, g_data, g_datalen, &r);
    g_fail_at = 0;
    long count = g_count, fired = g_fired;
    long live = g_live - base;
    PRES f;
    int wsave = g_window;
    g_window = 0;
    pipeline((const uint8_t*) FOLLOW_SRC, (const uint8_t*) FOLLOW_DATA, strlen(FOLLOW_DATA), &f);
    g_window = wsave;
    long live2 = g_live - base;
    int leaks = -1;
    if (lsan_each && __lsan_do_recoverable_leak_check) leaks = __lsan_do_recoverable_leak_check();
    fprintf(out, "res k=%d fired=%ld phase=%s rc=%d errs=%d count=%ld live=%ld live2=%ld lsan=%d sig=%s follow=%s/%d/%s\n", k, fired,
            r.phase, r.rc, r.errs, count, live, live2, leaks, r.sig[0] ? r.sig : "-", f.phase, f.rc, f.sig[0] ? f.sig : "-");
    fflush(out);
    if (k > 0 && fired == 0) break;   // k is beyond the scenario's allocation count
  }
  if (__lsan_do_recoverable_leak_check)
    fprintf(out, "leakcheck %d\n", __lsan_do_recoverable_leak_check());
}

// ------------------------------------------------------------------ API histories on external variables
static char* tok(char** p);
// script: space separated ops, executed in order; a failing op does not stop the history (the objects must stay usable):
//   inj+ inj-            open / close the injection window
//   cnew                 yr_compiler_create (+ callbacks)
//   cdefs:<v> cdefi:<name>:<n> cdefb:<name>:<n> cdeff:<name>   yr_compiler_define_*_variable (string variable: ext_s)
//   cadd cget cdel       add the rule source, get the rules, destroy the compiler
//   rdefs:<v> rdefs@<name>:<v> rdefi:<name>:<n> rdefb:<name>:<n> rdeff:<name>   yr_rules_define_*_variable on the current rules
//   save load            save the current rules; load them and make the loaded copy the current rules
//   snew sdefs:<v> sdefi:<name>:<n> scan sdel   scanner on the current rules
// prints the return code of every op (-1: not applicable, e.g. no scanner) and the scan results
static char g_script[4096];

static void history(FILE* out, int k)
{
  YR_COMPILER* c = NULL;
  YR_RULES* rules = NULL;
  YR_RULES* loaded = NULL;
  YR_RULES* cur = NULL;
  YR_SCANNER* sc = NULL;
  char script[4096];
  char rcs[1024] = "";
  char sigs[2048] = "";
  size_t rl = 0, sl = 0;
  char fault[96] = "-";      // the history op in which the first injected failure happened, and what it returned
  int opidx = 0;
  strcpy(script, g_script);
  yr_initialize();
  char* p = script;
  for (;;)
  {
    char* op = tok(&p);
    if (!*op) break;
    int rc = -1;
    char* arg = strchr(op, ':');
    char* name = NULL;
    if (arg) *arg++ = 0;
    char* at = strchr(op, '@');
    if (at) { *at++ = 0; name = at; }
    if (!strcmp(op, "inj+")) { g_active = 1; continue; }
    if (!strcmp(op, "inj-")) { g_active = 0; continue; }
    long fired_before = g_fired;
    char opname[32];
    snprintf(opname, sizeof opname, "%s", op);
    if (k > 0) { char m[80]; int l = snprintf(m, sizeof m, "HOP %d %s\n", opidx, opname); if (write(2, m, l) < 0) {} }
    if (!strcmp(op, "cnew"))
    {
      rc = yr_compiler_create(&c);
      if (rc == ERROR_SUCCESS)
      {
        yr_compiler_set_callback(c, compile_cb, NULL);
        yr_compiler_set_include_callback(c, include_cb, include_free, NULL);
      }
      else c = NULL;
    }
    else if (!strcmp(op, "cdefs")) { if (c) rc = yr_compiler_define_string_variable(c, name ? name : "ext_s", arg ? arg : ""); }
    else if (!strcmp(op, "cdefi") || !strcmp(op, "cdefb") || !strcmp(op, "cdeff"))
    {
      char* v = arg ? strchr(arg, ':') : NULL;
      if (v) *v++ = 0;
      if (c && arg)
        rc = op[4] == 'i' ? yr_compiler_define_integer_variable(c, arg, v ? atoi(v) : 0)
           : op[4] == 'b' ? yr_compiler_define_boolean_variable(c, arg, v ? atoi(v) : 0) : yr_compiler_define_float_variable(c, arg, 2.5);
    }
    else if (!strcmp(op, "cadd")) { if (c) { int e = yr_compiler_add_string(c, (const char*) g_src, NULL); rc = e ? (c->last_error ? c->last_error : 9999) : 0; } }
    else if (!strcmp(op, "cget")) { if (c && c->errors == 0) { rc = yr_compiler_get_rules(c, &rules); if (rc != ERROR_SUCCESS) rules = NULL; else cur = rules; } }
    else if (!strcmp(op, "cdel")) { if (c) { yr_compiler_destroy(c); c = NULL; rc = 0; } }
    else if (!strcmp(op, "rdefs")) { if (cur) rc = yr_rules_define_string_variable(cur, name ? name : "ext_s", arg ? arg : ""); }
    else if (!strcmp(op, "rdefi") || !strcmp(op, "rdefb") || !strcmp(op, "rdeff"))
    {
      char* v = arg ? strchr(arg, ':') : NULL;
      if (v) *v++ = 0;
      if (cur && arg)
        rc = op[4] == 'i' ? yr_rules_define_integer_variable(cur, arg, v ? atoi(v) : 0)
           : op[4] == 'b' ? yr_rules_define_boolean_variable(cur, arg, v ? atoi(v) : 0) : yr_rules_define_float_variable(cur, arg, 2.5);
    }
    else if (!strcmp(op, "save"))
    {
      if (cur)
      {
        YR_STREAM st;
        g_imglen = 0;
        st.user_data = NULL; st.write = img_write; st.read = img_read;
        rc = yr_rules_save_stream(cur, &st);
      }
    }
    else if (!strcmp(op, "load"))
    {
      if (g_imglen > 0 && loaded == NULL)
      {
        YR_STREAM st;
        g_imgpos = 0;
        st.user_data = NULL; st.write = img_write; st.read = img_read;
        rc = yr_rules_load_stream(&st, &loaded);
        if (rc != ERROR_SUCCESS) loaded = NULL; else cur = loaded;
      }
    }
    else if (!strcmp(op, "snew"))
    {
      if (cur && sc == NULL)
      {
        rc = yr_scanner_create(cur, &sc);
        if (rc != ERROR_SUCCESS) sc = NULL;
        else { yr_scanner_set_callback(sc, scan_cb, NULL); yr_scanner_set_timeout(sc, 30); }
      }
    }
    else if (!strcmp(op, "sdefs")) { if (sc) rc = yr_scanner_define_string_variable(sc, name ? name : "ext_s", arg ? arg : ""); }
    else if (!strcmp(op, "sdefi"))
    {
      char* v = arg ? strchr(arg, ':') : NULL;
      if (v) *v++ = 0;
      if (sc && arg) rc = yr_scanner_define_integer_variable(sc, arg, v ? atoi(v) : 0);
    }
    else if (!strcmp(op, "scan"))
    {
      if (sc)
      {
        g_siglen = 0;
        g_sig[0] = 0;
        rc = yr_scanner_scan_mem(sc, g_data, g_datalen);
        if (sl < sizeof sigs - 300) sl += snprintf(sigs + sl, 300, "%s|", rc == ERROR_SUCCESS ? (g_sig[0] ? g_sig : ".") : "!");
      }
    }
    else if (!strcmp(op, "sdel")) { if (sc) { yr_scanner_destroy(sc); sc = NULL; rc = 0; } }
    if (rl < sizeof rcs - 16) rl += snprintf(rcs + rl, 16, "%d,", rc);
    if (fired_before == 0 && g_fired > 0) snprintf(fault, sizeof fault, "%d:%s:%d", opidx, opname, rc);
    opidx++;
  }
  g_active = 0;
  if (sc) yr_scanner_destroy(sc);
  if (loaded) yr_rules_destroy(loaded);
  if (rules) yr_rules_destroy(rules);
  if (c) yr_compiler_destroy(c);
  yr_finalize();
  fprintf(out, "res k=%d fired=%ld phase=H rc=0 errs=0 count=%ld", k, g_fired, g_count);
  fprintf(out, " HIST=%s;%s;%s", rcs, sigs[0] ? sigs : "-", fault);
}

static void run_history(FILE* out, int kfrom, int kto, int sticky)
{
  for (int k = kfrom; k <= kto; k++)
  {
    long base = g_live;
    g_case_k = k;
    fprintf(out, "begin k=%d\n", k);
    fflush(out);
    { char m[64]; int l = snprintf(m, sizeof m, "BEGIN k=%d\n", k); if (write(2, m, l) < 0) {} }
    g_count = 0;
    g_fired = 0;
    g_fail_at = k;
    g_sticky = sticky;
    char line[8192];
    FILE* mem = fmemopen(line, sizeof line, "w");
    history(mem, k);
    fclose(mem);
    g_fail_at = 0;
    long fired = g_fired;
    long live = g_live - base;
    PRES f;
    int wsave = g_window;
    g_window = 0;
    pipeline((const uint8_t*) FOLLOW_SRC, (const uint8_t*) FOLLOW_DATA, strlen(FOLLOW_DATA), &f);
    g_window = wsave;
    long live2 = g_live - base;
    char* hist = strstr(line, " HIST=");
    if (hist) *hist = 0;
    fprintf(out, "%s live=%ld live2=%ld lsan=-1 sig=%s follow=%s/%d/%s\n", line, live, live2, hist ? hist + 6 : "?", f.phase, f.rc, f.sig[0] ? f.sig : "-");
    fflush(out);
    if (k > 0 && fired == 0) break;
  }
  if (__lsan_do_recoverable_leak_check)
    fprintf(out, "leakcheck %d\n", __lsan_do_recoverable_leak_check());
}

// ------------------------------------------------------------------ function level
static int const_quality(YR_ATOMS_CONFIG* config, YR_ATOM* atom) { return 10; }

static char* tok(char** p)
{
  while (**p == ' ') (*p)++;
  char* s = *p;
  while (**p && **p != ' ') (*p)++;
  if (**p) { **p = 0; (*p)++; }
  return s;
}

static void inj_begin(int k, int sticky)
{
  g_count = 0;
  g_fired = 0;
  g_fail_at = k;
  g_sticky = sticky;
  g_active = 1;
}

static void inj_end(void) { g_active = 0; g_fail_at = 0; }

// prints "ops=<rc,rc,...> live=<delta before destroy> after=<delta after destroy> count=<allocations requested>"
static void do_fn(FILE* out, char* p)
{
  char* fn = tok(&p);
  int k = atoi(tok(&p));
  int sticky = atoi(tok(&p));
  long base = g_live;
  long live_before_destroy = 0;
  g_case_k = k;
  fprintf(out, "ops=");
  if (!strcmp(fn, "arena"))
  {
    // arena <nbuf> <initial> then ops a:<buf>:<size> z:<buf>:<size> r:<buf>:<n>
    int nbuf = atoi(tok(&p));
    size_t initial = strtoull(tok(&p), NULL, 10);
    YR_ARENA* a = NULL;
    inj_begin(k, sticky);
    int rc = yr_arena_create(nbuf, initial, &a);
    size_t used[16] = {0};
    fprintf(out, "%d,", rc);
    while (rc == ERROR_SUCCESS && *p)
    {
      char* op = tok(&p);
      if (!*op) break;
      char kind = op[0];
      int buf = atoi(op + 2);
      char* q = strchr(op + 2, ':');
      size_t arg = q ? strtoull(q + 1, NULL, 10) : 0;
      int orc = 0;
      YR_ARENA_REF ref;
      if (kind == 'a') { orc = yr_arena_allocate_memory(a, buf, arg, &ref); if (orc == 0) used[buf & 15] += arg; }
      else if (kind == 'z') { orc = yr_arena_allocate_zeroed_memory(a, buf, arg, &ref); if (orc == 0) used[buf & 15] += arg; }
      else if (kind == 'r')
      {
        if (used[buf & 15] < 32) arg = 0;   // no memory there yet (an earlier allocation failed): no offsets to name
        // the offsets only name places inside the buffer that hold NULL pointers (zeroed memory)
        if (arg == 0) orc = yr_arena_make_ptr_relocatable(a, buf, EOL);
        else if (arg == 1) orc = yr_arena_make_ptr_relocatable(a, buf, (size_t) 0, EOL);
        else if (arg == 2) orc = yr_arena_make_ptr_relocatable(a, buf, (size_t) 0, (size_t) 8, EOL);
        else if (arg == 3) orc = yr_arena_make_ptr_relocatable(a, buf, (size_t) 0, (size_t) 8, (size_t) 16, EOL);
        else orc = yr_arena_make_ptr_relocatable(a, buf, (size_t) 0, (size_t) 8, (size_t) 16, (size_t) 24, EOL);
      }
      fprintf(out, "%d,", orc);
    }
    inj_end();
    live_before_destroy = g_live - base;
    if (a) yr_arena_release(a);
  }
  else if (!strcmp(fn, "notebook"))
  {
    size_t minpage = strtoull(tok(&p), NULL, 10);
    YR_NOTEBOOK* nb = NULL;
    inj_begin(k, sticky);
    int rc = yr_notebook_create(minpage, &nb);
    fprintf(out, "%d,", rc);
    while (rc == ERROR_SUCCESS && *p)
    {
      char* op = tok(&p);
      if (!*op) break;
      void* q = yr_notebook_alloc(nb, strtoull(op, NULL, 10));
      fprintf(out, "%d,", q == NULL ? ERROR_INSUFFICIENT_MEMORY : 0);
    }
    inj_end();
    live_before_destroy = g_live - base;
    if (rc == ERROR_SUCCESS) yr_notebook_destroy(nb);
  }
  else if (!strcmp(fn, "stack"))
  {
    int cap = atoi(tok(&p)), isz = atoi(tok(&p)), npush = atoi(tok(&p));
    YR_STACK* s = NULL;
    char item[64] = {0};
    inj_begin(k, sticky);
    int rc = yr_stack_create(cap, isz, &s);
    fprintf(out, "%d,", rc);
    for (int i = 0; rc == ERROR_SUCCESS && i < npush; i++) fprintf(out, "%d,", yr_stack_push(s, item));
    inj_end();
    live_before_destroy = g_live - base;
    if (rc == ERROR_SUCCESS) yr_stack_destroy(s);
  }
  else if (!strcmp(fn, "hash"))
  {
    // hash <size> then entries <keylen>:<has_ns>
    int size = atoi(tok(&p));
    YR_HASH_TABLE* t = NULL;
    inj_begin(k, sticky);
    int rc = yr_hash_table_create(size, &t);
    fprintf(out, "%d,", rc);
    int i = 0;
    while (rc == ERROR_SUCCESS && *p)
    {
      char* op = tok(&p);
      if (!*op) break;
      int keylen = atoi(op);
      char* q = strchr(op, ':');
      int has_ns = q ? atoi(q + 1) : 0;
      char key[256];
      memset(key, 'a' + (i % 26), sizeof key);
      key[0] = (char) i;
      key[1] = (char) (i >> 8);
      fprintf(out, "%d,", yr_hash_table_add_raw_key(t, key, keylen, has_ns ? "ns" : NULL, (void*) 1));
      i++;
    }
    inj_end();
    live_before_destroy = g_live - base;
    if (rc == ERROR_SUCCESS) yr_hash_table_destroy(t, NULL);
  }
  else if (!strcmp(fn, "atoms"))
  {
    // atoms <flags> <xor_min> <xor_max> <hex string>
    YR_MODIFIER mod;
    memset(&mod, 0, sizeof mod);
    mod.flags = atoi(tok(&p));
    mod.xor_min = atoi(tok(&p));
    mod.xor_max = atoi(tok(&p));
    size_t len;
    uint8_t* s = h_unhex(tok(&p), &len);
    YR_ATOMS_CONFIG cfg;
    memset(&cfg, 0, sizeof cfg);
    cfg.get_atom_quality = const_quality;   // the first atom is kept: which atom is chosen is not the subject here
    YR_ATOM_LIST_ITEM* atoms = NULL;
    int minq = 0;
    base = g_live;
    inj_begin(k, sticky);
    int rc = yr_atoms_extract_from_string(&cfg, s, (int32_t) len, mod, &atoms, &minq);
    inj_end();
    fprintf(out, "%d,", rc);
    live_before_destroy = g_live - base;
    if (rc == ERROR_SUCCESS)
    {
      int n = 0;
      for (YR_ATOM_LIST_ITEM* it = atoms; it; it = it->next) n++;
      fprintf(out, " n=%d", n);
      yr_atoms_list_destroy(atoms);
    }
    long after = g_live - base;
    free(s);
    fprintf(out, " live=%ld after=%ld count=%ld fired=%ld\n", live_before_destroy, after, g_count, g_fired);
    return;
  }
  else if (!strcmp(fn, "screate"))
  {
    // screate : yr_scanner_create on the rules compiled (without injection) from `src`
    YR_COMPILER* c = NULL;
    YR_RULES* rules = NULL;
    yr_initialize();
    yr_compiler_create(&c);
    char* q;
    while (*(q = tok(&p)))
    {
      // externals: i:<name> s:<name>:<value> f:<name> b:<name>
      char* name = q + 2;
      char* v = strchr(name, ':');
      if (v) *v++ = 0;
      if (q[0] == 'i') yr_compiler_define_integer_variable(c, name, 7);
      else if (q[0] == 'b') yr_compiler_define_boolean_variable(c, name, 1);
      else if (q[0] == 'f') yr_compiler_define_float_variable(c, name, 1.5);
      else if (q[0] == 's') yr_compiler_define_string_variable(c, name, v ? v : "");
    }
    int errs = yr_compiler_add_string(c, (const char*) g_src, NULL);
    if (errs || yr_compiler_get_rules(c, &rules) != ERROR_SUCCESS) { fprintf(out, "setup-failed\n"); return; }
    yr_compiler_destroy(c);
    YR_SCANNER* sc = NULL;
    base = g_live;
    inj_begin(k, sticky);
    int rc = yr_scanner_create(rules, &sc);
    inj_end();
    fprintf(out, "%d,", rc);
    live_before_destroy = g_live - base;
    if (rc == ERROR_SUCCESS) yr_scanner_destroy(sc);
    long after = g_live - base;
    fprintf(out, " live=%ld after=%ld count=%ld fired=%ld nrules=%d nstrings=%d\n", live_before_destroy, after, g_count, g_fired,
            (int) rules->num_rules, (int) rules->num_strings);
    yr_rules_destroy(rules);
    yr_finalize();
    return;
  }
  else
  {
    fprintf(out, "unknown-fn\n");
    return;
  }
  fprintf(out, " live=%ld after=%ld count=%ld fired=%ld\n", live_before_destroy, g_live - base, g_count, g_fired);
}

// ------------------------------------------------------------------ cases
typedef struct { char** lines; int n; } CASE;

static int parse_window(const char* s)
{
  int w = 0;
  if (strstr(s, "init")) w |= W_INIT;
  if (strstr(s, "compile")) w |= W_COMPILE;
  if (strstr(s, "save")) w |= W_SAVE;
  if (strstr(s, "load")) w |= W_LOAD;
  if (strstr(s, "screate")) w |= W_SCREATE;
  if (strstr(s, "scan")) w |= W_SCAN;
  return w;
}

static void run_case(void* arg, FILE* out)
{
  CASE* cs = (CASE*) arg;
  for (int i = 0; i < cs->n; i++)
  {
    char* p = cs->lines[i];
    char* c = tok(&p);
    if (!strcmp(c, "src")) { g_src = h_unhex(tok(&p), &g_srclen); }
    else if (!strcmp(c, "file") && g_nfiles < MAXF)
    {
      g_files[g_nfiles].name = strdup(tok(&p));
      g_files[g_nfiles].data = h_unhex(tok(&p), &g_files[g_nfiles].len);
      g_nfiles++;
    }
    else if (!strcmp(c, "data")) { g_data = h_unhex(tok(&p), &g_datalen); }
    else if (!strcmp(c, "datafile"))
    {
      FILE* f = fopen(tok(&p), "rb");
      if (!f) { fprintf(out, "cannot open data file\n"); continue; }
      fseek(f, 0, SEEK_END);
      g_datalen = ftell(f);
      fseek(f, 0, SEEK_SET);
      g_data = (uint8_t*) malloc(g_datalen + 1);
      if (fread(g_data, 1, g_datalen, f) != g_datalen) {}
      fclose(f);
    }
    else if (!strcmp(c, "window")) g_window = parse_window(tok(&p));
    else if (!strcmp(c, "run"))
    {
      int a = atoi(tok(&p)), b = atoi(tok(&p)), st = atoi(tok(&p)), le = atoi(tok(&p));
      run_range(out, a, b, st, le);
    }
    else if (!strcmp(c, "script")) { strncpy(g_script, p, sizeof g_script - 1); }
    else if (!strcmp(c, "hrun"))
    {
      int a = atoi(tok(&p)), b = atoi(tok(&p)), st = atoi(tok(&p));
      run_history(out, a, b, st);
    }
    else if (!strcmp(c, "fn")) do_fn(out, p);
    else if (*c) fprintf(out, "unknown command %s\n", c);
    fflush(out);
  }
}

int main(int argc, char** argv)
{
  int timeout = argc > 1 ? atoi(argv[1]) : 120;
  { void* bt[4]; backtrace(bt, 4); }   // loads the unwinder now, outside any injection window
  char* line;
  CASE cs = {0};
  int cap = 0;
  char id[256] = "";
  int in_case = 0;
  while ((line = h_readline(stdin)) != NULL)
  {
    if (!strncmp(line, "case ", 5)) { strncpy(id, line + 5, 255); in_case = 1; cs.n = 0; free(line); continue; }
    if (!strcmp(line, "endcase"))
    {
      printf("case %s\n", id);
      h_in_child(run_case, &cs, timeout);
      printf("endcase %s\n", id);
      fflush(stdout);
      for (int i = 0; i < cs.n; i++) free(cs.lines[i]);
      cs.n = 0;
      in_case = 0;
      free(line);
      continue;
    }
    if (in_case)
    {
      if (cs.n == cap) { cap = cap ? cap * 2 : 64; cs.lines = (char**) realloc(cs.lines, cap * sizeof(char*)); }
      cs.lines[cs.n++] = line;
    }
    else free(line);
  }
  free(cs.lines);
  return 0;
}
