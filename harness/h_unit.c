// h_unit: op-sequence interpreter for internal units of libyara (linked statically, so the hidden
// yr_arena_* symbols are callable).  One command per line, each executed in a forked child:
//
//   arena <nb> <cap> <ops>
//     ops: op;op;...   A:b:n  R:b:hex  W:b:hex  S:b:n:o1,o2|-  L:b:off:tb:to|L:b:off:N  P:b:off:tb:to|..:N
//                      B:b:off:hex  E:b:i:tb:to|E:b:i:N          (same language as coq/Model/ArenaMem.v [op])
//     prints  "r <addr>/<new size>" for every yr_realloc the arena performed (in order), then
//             "mem=<hex|hex..> bases=<a,b,..> sizes=<..>"  the used bytes of every buffer (raw pointers included)
//             "save rc=<rc> image=<hex>"                     yr_arena_save_stream
//             "mem2=<hex|..>"                                the memory after saving (must equal mem)
//   A crash (e.g. the assert(found) of yr_arena_save_stream) is reported as "crash sig=<n>".
#include "hcommon.h"
#include <yara/arena.h>
#include <yara/error.h>

static FILE* O;

static void trace_realloc(YR_ARENA* a, uint32_t b, size_t old_size)
{
  if (b < YR_MAX_ARENA_BUFFERS && a->buffers[b].size != old_size)
    fprintf(O, "r %llu/%zu\n", (unsigned long long) (uintptr_t) a->buffers[b].data, a->buffers[b].size);
}

static void* target_ptr(YR_ARENA* a, char** f, int nf, int at)
{
  if (nf <= at || !strcmp(f[at], "N")) return NULL;
  return yr_arena_get_ptr(a, (uint32_t) atoi(f[at]), (yr_arena_off_t) atoi(f[at + 1]));
}

static void dump_mem(YR_ARENA* a, const char* tag)
{
  fprintf(O, "%s=", tag);
  for (uint32_t i = 0; i < a->num_buffers; i++)
  {
    if (i) fputc('|', O);
    h_puthex(O, a->buffers[i].data, a->buffers[i].used);
  }
}

static int split(char* s, char sep, char** out, int max)
{
  int n = 0;
  out[n++] = s;
  for (; *s; s++)
    if (*s == sep && n < max) { *s = 0; out[n++] = s + 1; }
  return n;
}

static void do_op(YR_ARENA* a, char* op)
{
  char* f[8];
  int nf = split(op, ':', f, 8);
  uint32_t b = nf > 1 ? (uint32_t) atoi(f[1]) : 0;
  size_t old = b < YR_MAX_ARENA_BUFFERS ? a->buffers[b].size : 0;
  YR_ARENA_REF ref;
  size_t len;
  int rc = 0;
  switch (f[0][0])
  {
  case 'A':
    rc = yr_arena_allocate_zeroed_memory(a, b, (size_t) atoi(f[2]), &ref);
    trace_realloc(a, b, old);
    break;
  case 'R':
  {
    uint8_t* x = h_unhex(f[2], &len);
    rc = yr_arena_allocate_memory(a, b, len, &ref);
    trace_realloc(a, b, old);
    if (rc == 0 && len) memcpy(yr_arena_get_ptr(a, b, ref.offset), x, len);
    free(x);
    break;
  }
  case 'W':
  {
    uint8_t* x = h_unhex(f[2], &len);
    rc = yr_arena_write_data(a, b, x, len, &ref);
    trace_realloc(a, b, old);
    free(x);
    break;
  }
  case 'S':
  {
    size_t o[4] = {EOL, EOL, EOL, EOL};
    size_t n = (size_t) atoi(f[2]);
    if (strcmp(f[3], "-") != 0)
    {
      char* g[4];
      int k = split(f[3], ',', g, 4);
      for (int i = 0; i < k; i++) o[i] = (size_t) atoi(g[i]);
    }
    rc = yr_arena_allocate_struct(a, b, n, &ref, o[0], o[1], o[2], o[3], EOL);
    trace_realloc(a, b, old);
    break;
  }
  case 'L':
  {
    yr_arena_off_t off = (yr_arena_off_t) atoi(f[2]);
    void* p = target_ptr(a, f, nf, 3);
    rc = yr_arena_make_ptr_relocatable(a, b, (size_t) off, EOL);
    memcpy(yr_arena_get_ptr(a, b, off), &p, sizeof p);
    break;
  }
  case 'P':
  {
    void* p = target_ptr(a, f, nf, 3);
    memcpy(yr_arena_get_ptr(a, b, (yr_arena_off_t) atoi(f[2])), &p, sizeof p);
    break;
  }
  case 'B':
  {
    uint8_t* x = h_unhex(f[3], &len);
    if (len) memcpy(yr_arena_get_ptr(a, b, (yr_arena_off_t) atoi(f[2])), x, len);
    free(x);
    break;
  }
  case 'E':
  {
    // exactly yr_parser_emit_with_arg_reloc: the pointer is taken first
    struct { void* ptr; } arg;
    uint8_t instr = (uint8_t) atoi(f[2]);
    memset(&arg, 0, sizeof arg);
    arg.ptr = target_ptr(a, f, nf, 3);
    rc = yr_arena_write_data(a, b, &instr, 1, NULL);
    trace_realloc(a, b, old);
    old = a->buffers[b].size;
    if (rc == 0) rc = yr_arena_write_data(a, b, &arg, sizeof arg, &ref);
    trace_realloc(a, b, old);
    if (rc == 0) rc = yr_arena_make_ptr_relocatable(a, b, (size_t) ref.offset, EOL);
    break;
  }
  default:
    fprintf(O, "unknown op %s\n", f[0]);
  }
  if (rc != 0) fprintf(O, "oprc %d\n", rc);
}

static void run_arena(void* arg, FILE* out)
{
  char* line = (char*) arg;
  char* f[4];
  O = out;
  int nf = split(line, ' ', f, 4);
  if (nf < 4) { fprintf(out, "usage\n"); return; }
  YR_ARENA* a = NULL;
  int rc = yr_arena_create((uint32_t) atoi(f[1]), (size_t) strtoull(f[2], NULL, 10), &a);
  if (rc != 0) { fprintf(out, "create rc=%d\n", rc); return; }
  if (strcmp(f[3], "-") != 0)
  {
    char* s = f[3];
    while (s && *s)
    {
      char* e = strchr(s, ';');
      if (e) *e = 0;
      do_op(a, s);
      s = e ? e + 1 : NULL;
    }
  }
  dump_mem(a, "mem");
  fprintf(out, " bases=");
  for (uint32_t i = 0; i < a->num_buffers; i++)
    fprintf(out, "%s%llu", i ? "," : "", (unsigned long long) (uintptr_t) a->buffers[i].data);
  fprintf(out, " sizes=");
  for (uint32_t i = 0; i < a->num_buffers; i++) fprintf(out, "%s%zu", i ? "," : "", a->buffers[i].size);
  fprintf(out, "\n");
  fflush(out);
  HMEM m = {0};
  YR_STREAM ws;
  ws.user_data = &m; ws.write = (YR_STREAM_WRITE_FUNC) hmem_write; ws.read = NULL;
  rc = yr_arena_save_stream(a, &ws);
  fprintf(out, "save rc=%d image=", rc);
  h_puthex(out, m.data, m.len);
  fprintf(out, "\n");
  dump_mem(a, "mem2");
  fprintf(out, "\n");
  free(m.data);
  yr_arena_release(a);
}

int main(int argc, char** argv)
{
  int timeout = argc > 1 ? atoi(argv[1]) : 30;
  char* line;
  while ((line = h_readline(stdin)) != NULL)
  {
    printf("case\n");
    if (!strncmp(line, "arena ", 6)) h_in_child(run_arena, line, timeout);
    else printf("unknown command\n");
    printf("end\n");
    fflush(stdout);
    free(line);
  }
  return 0;
}
