// C06 driver: scans mutated executables with module-touching rule sets, the scanned bytes placed
// against PROT_NONE guard pages.  Built in the "asan" variant (ASan + UBSan recover + LSan).
//
// top level (state kept in the parent, inherited by every forked case):
//   sample <name> <hex>            register a base sample
//   ruleset <name> <hex source>    compile a rule set once;  prints "ruleset <name> errors=N rules=M [line:msg|...]"
// inside  case <id> ... endcase  (one forked child per case, stderr of the child goes to the case output):
//   use <sample>                   working copy := sample
//   bytes <hex>                    working copy := these bytes
//   trunc <n>                      keep the first n bytes
//   patch <off> <hex>              overwrite bytes (ignored past the end)
//   addrpatch <off> <width> <k>    write (0 - address_of_scanned_data - k) as a little-endian <width>-byte value:
//                                  makes `data + value` land k bytes below 2^64 (witness of is_valid_ptr_refuted)
//   append <hex>                   append bytes to the working copy
//   scan <ruleset> <R|L|H> <timeout> place the working copy Right-aligned before / Left-aligned after a guard page, or (H) in an
//                                  exact-size heap object (ASan redzones on both sides), scan
//                                  prints "scan rc=<rc> matches=<n> of=<rules> place=<R|L> size=<n>"
// at the end of a case "leakcheck <n>".
#include "hcommon.h"
#include <errno.h>

typedef struct { char name[64]; uint8_t* data; size_t len; } SAMPLE;
typedef struct { char name[64]; YR_RULES* rules; int nrules; } RULESET;
static SAMPLE samples[256];
static int nsamples;
static RULESET rulesets[256];
static int nrulesets;

typedef struct { char** lines; int n; } CASE;
int __lsan_do_recoverable_leak_check(void) __attribute__((weak));

typedef struct { char buf[4096]; int n; int count; } CERR;
static void compile_cb(int level, const char* file, int line, const YR_RULE* rule, const char* msg, void* ud)
{
  CERR* e = (CERR*) ud;
  if (level != YARA_ERROR_LEVEL_ERROR) return;
  e->count++;
  if (e->n < 3800) e->n += snprintf(e->buf + e->n, 200, "%d:%.150s|", line, msg);
}

static int scan_cb(YR_SCAN_CONTEXT* ctx, int message, void* message_data, void* ud)
{
  int* matches = (int*) ud;
  if (message == CALLBACK_MSG_RULE_MATCHING) (*matches)++;
  return CALLBACK_CONTINUE;
}

typedef struct { uint8_t* region; size_t region_len; uint8_t* p; } PLACED;

// working copy placed so that the byte after (R) / before (L) it is inaccessible
static int place(const uint8_t* src, size_t len, int right, PLACED* pl)
{
  size_t pg = (size_t) sysconf(_SC_PAGESIZE);
  size_t body = ((len + pg - 1) / pg) * pg;
  if (body == 0) body = pg;
  pl->region_len = body + 2 * pg;
  pl->region = (uint8_t*) mmap(NULL, pl->region_len, PROT_READ | PROT_WRITE, MAP_PRIVATE | MAP_ANONYMOUS, -1, 0);
  if (pl->region == MAP_FAILED) return -1;
  // poison the slack so that an access inside the mapping but outside the data is at least visible in values
  memset(pl->region, 0xA5, pl->region_len);
  pl->p = right ? pl->region + pg + body - len : pl->region + pg;
  memcpy(pl->p, src, len);
  mprotect(pl->region, pg, PROT_NONE);
  mprotect(pl->region + pg + body, pg, PROT_NONE);
  return 0;
}

// "<name> <hex source>": compiles a rule set; prints "ruleset <name> errors=N rules=M [line:msg|...]"
static void add_ruleset(char* arg, FILE* out)
{
  char* sp = strchr(arg, ' ');
  if (sp && nrulesets < 256)
  {
    *sp = 0;
    RULESET* r = &rulesets[nrulesets++];
    strncpy(r->name, arg, 63);
    size_t n;
    uint8_t* src = h_unhex(sp + 1, &n);
    YR_COMPILER* c = NULL;
    CERR ce = {0};
    yr_compiler_create(&c);
    yr_compiler_set_callback(c, compile_cb, &ce);
    int errs = yr_compiler_add_string(c, (const char*) src, NULL);
    r->rules = NULL;
    r->nrules = 0;
    if (errs == 0 && yr_compiler_get_rules(c, &r->rules) != ERROR_SUCCESS) { r->rules = NULL; errs = -1; }
    if (r->rules)
    {
      YR_RULE* rule;
      yr_rules_foreach(r->rules, rule) r->nrules++;
    }
    yr_compiler_destroy(c);
    free(src);
    fprintf(out, "ruleset %s errors=%d rules=%d %s\n", r->name, errs, r->nrules, ce.buf);
    fflush(out);
  }
}

static void run_case(void* arg, FILE* out)
{
  CASE* cs = (CASE*) arg;
  uint8_t* work = NULL;
  size_t wlen = 0;
  // addrpatch requests are applied after placement (they depend on the address)
  struct { size_t off; int width; long k; } ap[16];
  int nap = 0;
  int own_from = -1;      // rule sets compiled by this case
  dup2(fileno(out), 2);   // sanitizer reports belong to the case
  for (int i = 0; i < cs->n; i++)
  {
    char* l = cs->lines[i];
    if (!strncmp(l, "use ", 4))
    {
      int f = -1;
      for (int k = 0; k < nsamples; k++) if (!strcmp(samples[k].name, l + 4)) f = k;
      if (f < 0) { fprintf(out, "error no sample %s\n", l + 4); continue; }
      free(work);
      wlen = samples[f].len;
      work = (uint8_t*) malloc(wlen + 1);
      memcpy(work, samples[f].data, wlen);
      nap = 0;
    }
    else if (!strncmp(l, "ruleset ", 8))
    {
      own_from = own_from < 0 ? nrulesets : own_from;
      add_ruleset(l + 8, out);
    }
    else if (!strncmp(l, "bytes ", 6))
    {
      free(work);
      work = h_unhex(l + 6, &wlen);
      nap = 0;
    }
    else if (!strncmp(l, "trunc ", 6))
    {
      size_t n = strtoull(l + 6, NULL, 10);
      if (n < wlen) wlen = n;
    }
    else if (!strncmp(l, "patch ", 6))
    {
      char* e;
      size_t off = strtoull(l + 6, &e, 10);
      size_t n;
      uint8_t* b = h_unhex(e + 1, &n);
      for (size_t k = 0; k < n; k++) if (off + k < wlen) work[off + k] = b[k];
      free(b);
    }
    else if (!strncmp(l, "append ", 7))
    {
      size_t n;
      uint8_t* b = h_unhex(l + 7, &n);
      work = (uint8_t*) realloc(work, wlen + n + 1);
      memcpy(work + wlen, b, n);
      wlen += n;
      free(b);
    }
    else if (!strncmp(l, "addrpatch ", 10))
    {
      char* e;
      size_t off = strtoull(l + 10, &e, 10);
      int width = (int) strtol(e, &e, 10);
      long k = strtol(e, &e, 10);
      if (nap < 16) { ap[nap].off = off; ap[nap].width = width; ap[nap].k = k; nap++; }
    }
    else if (!strncmp(l, "scan ", 5))
    {
      char rs[64], plc[8];
      int timeout = 10;
      if (sscanf(l + 5, "%63s %7s %d", rs, plc, &timeout) < 2) { fprintf(out, "error bad scan\n"); continue; }
      int f = -1;
      for (int k = 0; k < nrulesets; k++) if (!strcmp(rulesets[k].name, rs)) f = k;
      if (f < 0 || rulesets[f].rules == NULL) { fprintf(out, "error no ruleset %s\n", rs); continue; }
      PLACED pl;
      if (work != NULL && plc[0] == 'H')
      {
        // exact-size heap object: any access outside [p, p+wlen) hits an ASan redzone
        pl.region = NULL;
        pl.region_len = 0;
        pl.p = (uint8_t*) malloc(wlen ? wlen : 1);
        memcpy(pl.p, work, wlen);
      }
      else
      if (work == NULL || place(work, wlen, plc[0] == 'R', &pl) != 0) { fprintf(out, "error place\n"); continue; }
      for (int a = 0; a < nap; a++)
      {
        uint64_t v = (uint64_t) 0 - (uint64_t) (uintptr_t) pl.p - (uint64_t) ap[a].k;
        for (int b = 0; b < ap[a].width; b++)
          if (ap[a].off + b < wlen) pl.p[ap[a].off + b] = (uint8_t) (v >> (8 * b));
      }
      YR_SCANNER* sc = NULL;
      int matches = 0;
      int rc = yr_scanner_create(rulesets[f].rules, &sc);
      if (rc == ERROR_SUCCESS)
      {
        yr_scanner_set_callback(sc, scan_cb, &matches);
        yr_scanner_set_timeout(sc, timeout);
        rc = yr_scanner_scan_mem(sc, pl.p, wlen);
        yr_scanner_destroy(sc);
      }
      fprintf(out, "scan rc=%d matches=%d of=%d place=%c size=%zu\n", rc, matches, rulesets[f].nrules, plc[0], wlen);
      fflush(out);
      if (pl.region) munmap(pl.region, pl.region_len); else free(pl.p);
    }
    else
      fprintf(out, "error unknown command %.20s\n", l);
  }
  free(work);
  if (own_from >= 0)
    for (int k = own_from; k < nrulesets; k++) if (rulesets[k].rules) yr_rules_destroy(rulesets[k].rules);
  if (__lsan_do_recoverable_leak_check)
    fprintf(out, "leakcheck %d\n", __lsan_do_recoverable_leak_check());
}

int main(int argc, char** argv)
{
  int timeout = argc > 1 ? atoi(argv[1]) : 60;
  yr_initialize();
  char* line;
  CASE cs = {0};
  int cap = 0;
  char id[256] = "";
  int in_case = 0;
  while ((line = h_readline(stdin)) != NULL)
  {
    if (!in_case && !strncmp(line, "sample ", 7))
    {
      char* sp = strchr(line + 7, ' ');
      if (sp && nsamples < 256)
      {
        *sp = 0;
        strncpy(samples[nsamples].name, line + 7, 63);
        samples[nsamples].data = h_unhex(sp + 1, &samples[nsamples].len);
        nsamples++;
      }
      free(line);
      continue;
    }
    if (!in_case && !strncmp(line, "ruleset ", 8))
    {
      add_ruleset(line + 8, stdout);
      free(line);
      continue;
    }
    if (!strncmp(line, "case ", 5)) { strncpy(id, line + 5, 255); in_case = 1; cs.n = 0; free(line); continue; }
    if (!strcmp(line, "endcase"))
    {
      printf("case %s\n", id);
      h_in_child(run_case, &cs, timeout);
      printf("endcase %s\n", id);
      fflush(stdout);
      for (int i = 0; i < cs.n; i++) free(cs.lines[i]);
      cs.n = 0;
      in_case = 0;
      free(line);
      continue;
    }
    if (in_case)
    {
      if (cs.n == cap) { cap = cap ? cap * 2 : 64; cs.lines = (char**) realloc(cs.lines, cap * sizeof(char*)); }
      cs.lines[cs.n++] = line;
    }
    else free(line);
  }
  return 0;
}
