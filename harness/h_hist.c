// h_hist: operation histories on scanners / rule sets (C10, C20).  All commands of h_scan.c are
// available (the file is included, its main/run_case renamed); added here:
//   setep <n|->         poke scanner->entry_point (oracle "fresh scanner that already saw entry point n")
//   stimeoutns <n>      poke scanner->timeout in nanoseconds (deterministic time-outs: 1 ns)
//   scanfill <hex> <n>  scan a buffer made of <n> repetitions of the pattern (too-many-matches inputs)
//   ctx                 print every field of YR_SCAN_CONTEXT that outlives a scan, canonicalised
//   hcb                 install the wrapping callback on the current scanner: script action 3 = sleep 1.1 s, continue
//   lasterr             yr_scanner_last_error_string / rule identifiers
//   scanproc            yr_scanner_scan_proc(getpid())
//   hblocks start|resume  scan the block list (blocks/notready of h_scan) with an iterator that survives the call
#define main hscan_main
#define run_case hscan_run_case
#include "h_scan.c"
#undef main
#undef run_case
#include <yara/hash.h>
#include <time.h>

static int any_set(const void* p, size_t n)
{
  const uint8_t* b = (const uint8_t*) p;
  for (size_t i = 0; i < n; i++) if (b[i]) return 1;
  return 0;
}

static int hist_cb(YR_SCAN_CONTEXT* ctx, int msg, void* data, void* ud)
{
  int r = scan_cb(ctx, msg, data, ud);
  if (r == 3)
  {
    struct timespec ts = {1, 100000000};
    nanosleep(&ts, NULL);
    return CALLBACK_CONTINUE;
  }
  return r;
}

static void print_ctx(HS* s)
{
  FILE* o = s->out;
  YR_SCANNER* sc = s->scanner[s->cur];
  YR_RULES* r = sc->rules;
  fprintf(o, "ctx ep=");
  if (sc->entry_point == YR_UNDEFINED) fprintf(o, "-"); else fprintf(o, "%llu", (unsigned long long) sc->entry_point);
  fprintf(o, " fsize=");
  if (sc->file_size == YR_UNDEFINED) fprintf(o, "-"); else fprintf(o, "%llu", (unsigned long long) sc->file_size);
  fprintf(o, " flags=%d timeout=%llu nb=%d", sc->flags, (unsigned long long) sc->timeout, sc->matches_notebook != NULL);
  fprintf(o, " rmf=%d nsu=%d std=%d m=%d um=%d req=%d",
          any_set(sc->rule_matches_flags, sizeof(YR_BITMASK) * YR_BITMASK_SIZE(r->num_rules)),
          any_set(sc->ns_unsatisfied_flags, sizeof(YR_BITMASK) * YR_BITMASK_SIZE(r->num_namespaces)),
          any_set(sc->strings_temp_disabled, sizeof(YR_BITMASK) * YR_BITMASK_SIZE(r->num_strings)),
          any_set(sc->matches, sizeof(YR_MATCHES) * r->num_strings),
          any_set(sc->unconfirmed_matches, sizeof(YR_MATCHES) * r->num_strings),
          any_set(sc->required_eval, sizeof(YR_BITMASK) * YR_BITMASK_SIZE(r->num_rules)));
  // objects table: identifiers with type and value, sorted by name
  char* names[256];
  int n = 0;
  YR_HASH_TABLE* t = sc->objects_table;
  for (int i = 0; i < t->size; i++)
    for (YR_HASH_TABLE_ENTRY* e = t->buckets[i]; e != NULL; e = e->next)
    {
      YR_OBJECT* ob = (YR_OBJECT*) e->value;
      char buf[1200];
      size_t kl = e->key_length < 200 ? e->key_length : 200;
      int k = snprintf(buf, sizeof buf, "%.*s:", (int) kl, (const char*) e->key);
      if (ob->type == OBJECT_TYPE_INTEGER) snprintf(buf + k, sizeof buf - k, "i:%lld", (long long) ob->value.i);
      else if (ob->type == OBJECT_TYPE_FLOAT) snprintf(buf + k, sizeof buf - k, "f:%.17g", ob->value.d);
      else if (ob->type == OBJECT_TYPE_STRING)
      {
        k += snprintf(buf + k, sizeof buf - k, "s:");
        if (ob->value.ss == NULL) snprintf(buf + k, sizeof buf - k, "null");
        else if (ob->value.ss->length == 0) snprintf(buf + k, sizeof buf - k, "-");
        else for (uint32_t j = 0; j < ob->value.ss->length && k + 3 < (int) sizeof buf; j++)
          k += snprintf(buf + k, sizeof buf - k, "%02x", (uint8_t) ob->value.ss->c_string[j]);
      }
      else snprintf(buf + k, sizeof buf - k, "struct");
      if (n < 256) names[n++] = strdup(buf);
    }
  for (int i = 0; i < n; i++)
    for (int j = i + 1; j < n; j++)
      if (strcmp(names[i], names[j]) > 0) { char* x = names[i]; names[i] = names[j]; names[j] = x; }
  fprintf(o, " objs=");
  for (int i = 0; i < n; i++) { fprintf(o, "%s,", names[i]); free(names[i]); }
  // pools: every fiber / position must be back in its free list between scans
  int nf = 0, np = 0;
  for (RE_FIBER* f = sc->re_fiber_pool.fibers.head; f != NULL; f = f->next) nf++;
  for (RE_FAST_EXEC_POSITION* p = sc->re_fast_exec_position_pool.head; p != NULL; p = p->next) np++;
  fprintf(o, " fibers=%d/%d positions=%d lasterr=%s\n", nf, sc->re_fiber_pool.fiber_count, np,
          sc->last_error_string ? sc->last_error_string->identifier : "-");
}

static void hist_cmd(HS* s, char* line)
{
  FILE* o = s->out;
  char* copy = strdup(line);
  char* p = copy;
  char* c = tok(&p);
  if (!strcmp(c, "setep"))
  {
    char* v = tok(&p);
    s->scanner[s->cur]->entry_point = strcmp(v, "-") ? strtoull(v, NULL, 10) : YR_UNDEFINED;
  }
  else if (!strcmp(c, "stimeoutns")) s->scanner[s->cur]->timeout = strtoull(tok(&p), NULL, 10);
  else if (!strcmp(c, "hcb")) yr_scanner_set_callback(s->scanner[s->cur], hist_cb, s);
  else if (!strcmp(c, "ctx")) print_ctx(s);
  else if (!strcmp(c, "scanfill"))
  {
    // scanfill <unit hex> <count> [<prefix hex>] : the buffer is prefix + count repetitions of the unit
    size_t plen, prelen = 0;
    uint8_t* pat = h_unhex(tok(&p), &plen);
    size_t cnt = (size_t) strtoull(tok(&p), NULL, 10);
    char* pre_s = tok(&p);
    uint8_t* pre = *pre_s ? h_unhex(pre_s, &prelen) : NULL;
    uint8_t* b = (uint8_t*) malloc(prelen + plen * cnt + 1);
    if (pre) memcpy(b, pre, prelen);
    for (size_t i = 0; i < cnt; i++) memcpy(b + prelen + i * plen, pat, plen);
    s->msg_index = 0;
    fprintf(o, "scan msgs=");
    int rc = yr_scanner_scan_mem(s->scanner[s->cur], b, prelen + plen * cnt);
    fprintf(o, " rc=%d\n", rc);
    free(b);
    free(pat);
    free(pre);
  }
  else if (!strcmp(c, "scanproc"))
  {
    // yr_scanner_scan_proc on this very process (what it finds depends on the process image: only rc and the
    // scanner's state afterwards are meant to be compared)
    s->msg_index = 0;
    fprintf(o, "scan msgs=");
    int rc = yr_scanner_scan_proc(s->scanner[s->cur], (int) getpid());
    fprintf(o, " rc=%d\n", rc);
  }
  else if (!strcmp(c, "blocks"))
  {
    // h_scan's "blocks" overwrites the previous list: release it first (the ASan runs count leaks)
    for (int i = 0; i < s->nblk; i++) { free(s->blk_data[i]); s->blk_data[i] = NULL; }
    s->nblk = 0;
    do_cmd(s, line);
  }
  else if (!strcmp(c, "hblocks"))
  {
    // hblocks start | resume : yr_scanner_scan_mem_blocks with ONE iterator object kept across calls, so
    // that a call after ERROR_BLOCK_NOT_READY is a resumption (h_scan's scanblocks builds a new iterator)
    static YR_MEMORY_BLOCK_ITERATOR it;
    static int last_rc = 0;
    if (strcmp(tok(&p), "start") != 0)
    {
      // a resumption makes sense only after ERROR_BLOCK_NOT_READY (the scan may have ended otherwise, e.g. timed out)
      if (last_rc != ERROR_BLOCK_NOT_READY) { fprintf(o, "scan skipped\n"); free(copy); return; }
    }
    else
    {
      it.context = s;
      it.first = it_first;
      it.next = it_next;
      it.file_size = s->fsz_known ? it_fsize : NULL;
      it.last_error = ERROR_SUCCESS;
      s->blk.fetch_data = it_fetch;
      s->msg_index = 0;
    }
    fprintf(o, "scan msgs=");
    int rc = yr_scanner_scan_mem_blocks(s->scanner[s->cur], &it);
    last_rc = rc;
    fprintf(o, " rc=%d\n", rc);
  }
  else if (!strcmp(c, "lasterr"))
  {
    YR_STRING* st = yr_scanner_last_error_string(s->scanner[s->cur]);
    fprintf(o, "lasterr %s\n", st ? st->identifier : "-");
  }
  else
  {
    do_cmd(s, line);
    free(copy);
    return;
  }
  free(copy);
}

static void run_case(void* arg, FILE* out)
{
  CASE* cs = (CASE*) arg;
  HS* s = (HS*) calloc(1, sizeof(HS));
  s->out = out;
  s->want_strings = 1;
  for (int i = 0; i < cs->n; i++)
  {
    if (s->stop && strncmp(cs->lines[i], "force ", 6) != 0) continue;
    hist_cmd(s, cs->lines[i]);
    fflush(out);
  }
  if (__lsan_do_recoverable_leak_check)
  {
    int leaks = __lsan_do_recoverable_leak_check();
    fprintf(out, "leakcheck %d\n", leaks);
  }
}

int main(int argc, char** argv)
{
  int timeout = argc > 1 ? atoi(argv[1]) : 120;
  yr_initialize();
  char* line;
  CASE cs = {0};
  int cap = 0;
  char id[256] = "";
  int in_case = 0;
  while ((line = h_readline(stdin)) != NULL)
  {
    if (!strncmp(line, "case ", 5)) { strncpy(id, line + 5, 255); in_case = 1; cs.n = 0; free(line); continue; }
    if (!strcmp(line, "endcase"))
    {
      printf("case %s\n", id);
      h_in_child(run_case, &cs, timeout);
      printf("endcase %s\n", id);
      fflush(stdout);
      for (int i = 0; i < cs.n; i++) free(cs.lines[i]);
      cs.n = 0;
      in_case = 0;
      free(line);
      continue;
    }
    if (in_case)
    {
      if (cs.n == cap) { cap = cap ? cap * 2 : 64; cs.lines = (char**) realloc(cs.lines, cap * sizeof(char*)); }
      cs.lines[cs.n++] = line;
    }
    else free(line);
  }
  free(cs.lines);
  yr_finalize();
  return 0;
}
