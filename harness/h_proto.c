// h_proto: h_scan plus what C11/C13 need.  All h_scan commands are available unchanged (h_scan.c is
// included, so its command set and its message printer scan_cb stay the single source of truth); added:
//   pcb                 wrap the current scanner's callback: besides printing the message as h_scan does, snapshot
//                       rule_matches_flags / ns_unsatisfied_flags while the report loop runs; every p* scan prints
//                       them on a following line "bits rm=<one char per rule> ns=<one char per namespace>"
//   piter               (re)initialise the persistent, position-keeping block iterator over the list set by
//                       `blocks` (h_scan command) with the answers set by `notready` (per call: '1' = not ready)
//   nulldata <i>|-      fetch_data of block i returns NULL ; - clears
//   pscan               ONE call of yr_scanner_scan_mem_blocks with the persistent iterator
//   ploop <max>         repeat pscan while it returns ERROR_BLOCK_NOT_READY (at most max calls)
//   prscan <flags>      one call of yr_rules_scan_mem_blocks (fresh internal scanner) with the persistent iterator
//   pbits               print the last snapshot and forget it
//   pmode naive|keep    naive: first() sets its position to block 0 before it knows whether it is ready (and
//                       next() pre-increments), as a straightforward iterator would; keep (default): see below
// Iterator semantics ("position keeping"): the iterator remembers the index of the last block it delivered
// (-1 at piter).  first(): if ready deliver block 0.  next(): if ready deliver block last+1.  A not-ready answer
// changes nothing but last_error.  Hence next() after a not-ready first() delivers block 0: this is what an
// iterator has to do for the documented retry to work, because the continuation always calls next().
// Every call is logged: f<i>/n<i> delivered block i, fE/nE end, fR/nR not ready.
#define main hscan_main_unused
#define run_case hscan_run_case_unused
#include "h_scan.c"
#undef main
#undef run_case
#include <yara/bitmask.h>

static struct
{
  int last;                       // index of the last delivered block, -1 = none
  YR_MEMORY_BLOCK_ITERATOR it;
  YR_MEMORY_BLOCK blk;
  int nulldata[64];
  char log[16384];
  int loglen;
  int naive;                      // pmode naive: first() rewinds before it knows whether it is ready
  int snap;                       // snapshot taken
  char rm[4096], ns[4096];
  HS* s;
} P;

static void p_log(char kind, int idx, char what)
{
  if (P.loglen > (int) sizeof P.log - 32) return;
  if (P.loglen) P.log[P.loglen++] = ',';
  if (what) P.loglen += sprintf(P.log + P.loglen, "%c%c", kind, what);
  else P.loglen += sprintf(P.log + P.loglen, "%c%d", kind, idx);
}

static const uint8_t* p_fetch(YR_MEMORY_BLOCK* b)
{
  intptr_t i = (intptr_t) b->context;
  if (P.nulldata[i]) return NULL;
  return P.s->blk_data[i];
}

static YR_MEMORY_BLOCK* p_call(YR_MEMORY_BLOCK_ITERATOR* it, int is_first)
{
  HS* s = P.s;
  char kind = is_first ? 'f' : 'n';
  int c = s->nr_call;
  if (c < s->nr_len) s->nr_call++;
  if (P.naive && is_first) P.last = 0;   // "rewind, then try": next() will pre-increment to block 1
  if (c < s->nr_len && s->notready[c] == '1')
  {
    it->last_error = ERROR_BLOCK_NOT_READY;
    p_log(kind, 0, 'R');
    return NULL;
  }
  it->last_error = ERROR_SUCCESS;
  int i = is_first ? 0 : P.last + 1;
  P.last = i;
  if (i >= s->nblk) { p_log(kind, 0, 'E'); return NULL; }
  P.blk.base = s->blk_base[i];
  P.blk.size = s->blk_len[i];
  P.blk.context = (void*) (intptr_t) i;
  P.blk.fetch_data = p_fetch;
  p_log(kind, i, 0);
  return &P.blk;
}
static YR_MEMORY_BLOCK* p_first(YR_MEMORY_BLOCK_ITERATOR* it) { return p_call(it, 1); }
static YR_MEMORY_BLOCK* p_next(YR_MEMORY_BLOCK_ITERATOR* it) { return p_call(it, 0); }
static uint64_t p_fsize(YR_MEMORY_BLOCK_ITERATOR* it) { return P.s->fsz; }

static int proto_cb(YR_SCAN_CONTEXT* ctx, int msg, void* data, void* ud)
{
  if (msg == CALLBACK_MSG_RULE_MATCHING || msg == CALLBACK_MSG_RULE_NOT_MATCHING || msg == CALLBACK_MSG_SCAN_FINISHED)
  {
    uint32_t i;
    for (i = 0; i < ctx->rules->num_rules && i < sizeof P.rm - 1; i++)
      P.rm[i] = yr_bitmask_is_set(ctx->rule_matches_flags, i) ? '1' : '0';
    P.rm[i] = 0;
    for (i = 0; i < ctx->rules->num_namespaces && i < sizeof P.ns - 1; i++)
      P.ns[i] = yr_bitmask_is_set(ctx->ns_unsatisfied_flags, i) ? '1' : '0';
    P.ns[i] = 0;
    P.snap = 1;
  }
  return scan_cb(ctx, msg, data, ud);
}

static void p_bits(HS* s)
{
  if (P.snap) fprintf(s->out, "bits rm=%s ns=%s\n", P.rm[0] ? P.rm : "-", P.ns[0] ? P.ns : "-");
  else fprintf(s->out, "bits none\n");
  P.snap = 0;
}

static int p_one(HS* s, int rules_level, int flags)
{
  FILE* o = s->out;
  P.loglen = 0; P.log[0] = 0;
  P.it.file_size = s->fsz_known ? p_fsize : NULL;
  fprintf(o, "scan msgs=");
  int rc = rules_level ? yr_rules_scan_mem_blocks(cur_rules(s), &P.it, flags, proto_cb, s, 0)
                       : yr_scanner_scan_mem_blocks(s->scanner[s->cur], &P.it);
  fprintf(o, " rc=%d log=%s\n", rc, P.loglen ? P.log : "-");
  if (rc != ERROR_BLOCK_NOT_READY) s->msg_index = 0;
  return rc;
}

static void proto_cmd(HS* s, char* line)
{
  char* copy = strdup(line);
  char* p = copy;
  char* c = tok(&p);
  P.s = s;
  if (!strcmp(c, "pcb")) yr_scanner_set_callback(s->scanner[s->cur], proto_cb, s);
  else if (!strcmp(c, "piter"))
  {
    P.last = -1;
    P.it.context = NULL;
    P.it.first = p_first;
    P.it.next = p_next;
    P.it.last_error = ERROR_SUCCESS;
    s->nr_call = 0;
    s->msg_index = 0;
  }
  else if (!strcmp(c, "nulldata"))
  {
    char* t = tok(&p);
    if (!strcmp(t, "-")) memset(P.nulldata, 0, sizeof P.nulldata);
    else P.nulldata[atoi(t) & 63] = 1;
  }
  else if (!strcmp(c, "pscan")) { p_one(s, 0, 0); p_bits(s); }
  else if (!strcmp(c, "prscan")) { p_one(s, 1, atoi(tok(&p))); p_bits(s); }
  else if (!strcmp(c, "ploop"))
  {
    int max = atoi(tok(&p)), n = 0, rc;
    do { rc = p_one(s, 0, 0); n++; } while (rc == ERROR_BLOCK_NOT_READY && n < max);
    fprintf(s->out, "ploop calls=%d last_rc=%d\n", n, rc);
    p_bits(s);
  }
  else if (!strcmp(c, "pbits")) p_bits(s);
  else if (!strcmp(c, "pmode")) P.naive = !strcmp(tok(&p), "naive");
  else do_cmd(s, line);
  free(copy);
}

static void run_case(void* arg, FILE* out)
{
  CASE* cs = (CASE*) arg;
  HS* s = (HS*) calloc(1, sizeof(HS));
  s->out = out;
  s->want_strings = 1;
  memset(&P, 0, sizeof P);
  P.last = -1;
  for (int i = 0; i < cs->n; i++)
  {
    if (s->stop && strncmp(cs->lines[i], "force ", 6) != 0) continue;
    proto_cmd(s, cs->lines[i]);
    fflush(out);
  }
  if (__lsan_do_recoverable_leak_check)
  {
    int leaks = __lsan_do_recoverable_leak_check();
    fprintf(out, "leakcheck %d\n", leaks);
  }
}

int main(int argc, char** argv)
{
  int timeout = argc > 1 ? atoi(argv[1]) : 60;
  yr_initialize();
  char* line;
  CASE cs = {0};
  int cap = 0;
  char id[256] = "";
  int in_case = 0;
  while ((line = h_readline(stdin)) != NULL)
  {
    if (!strncmp(line, "case ", 5)) { strncpy(id, line + 5, 255); in_case = 1; cs.n = 0; free(line); continue; }
    if (!strcmp(line, "endcase"))
    {
      printf("case %s\n", id);
      h_in_child(run_case, &cs, timeout);
      printf("endcase %s\n", id);
      fflush(stdout);
      for (int i = 0; i < cs.n; i++) free(cs.lines[i]);
      cs.n = 0;
      in_case = 0;
      free(line);
      continue;
    }
    if (in_case)
    {
      if (cs.n == cap) { cap = cap ? cap * 2 : 64; cs.lines = (char**) realloc(cs.lines, cap * sizeof(char*)); }
      cs.lines[cs.n++] = line;
    }
    else free(line);
  }
  yr_finalize();
  return 0;
}
