// h_proto: h_scan plus what C11/C13 need.  All h_scan commands are available unchanged (h_scan.c is
// included, so its command set and its message printer scan_cb stay the single source of truth); added:
//   pcb                 wrap the current scanner's callback: besides printing the message as h_scan does, snapshot
//                       rule_matches_flags / ns_unsatisfied_flags while the report loop runs; every p* scan prints
//                       them on a following line "bits rm=<one char per rule> ns=<one char per namespace>"
//   piter               (re)initialise the persistent, position-keeping block iterator over the list set by
//                       `blocks` (h_scan command) with the answers set by `notready` (per call: '1' = not ready)
//   nulldata <i>|-      fetch_data of block i returns NULL ; - clears
//   pscan               ONE call of yr_scanner_scan_mem_blocks with the persistent iterator
//   ploop <max>         repeat pscan while it returns ERROR_BLOCK_NOT_READY (at most max calls)
//   prscan <flags>      one call of yr_rules_scan_mem_blocks (fresh internal scanner) with the persistent iterator
//   pbits               print the last snapshot and forget it
//   pmode naive|keep    naive: first() sets its position to block 0 before it knows whether it is ready (and
//                       next() pre-increments), as a straightforward iterator would; keep (default): see below
// Resources the caller owns (C13 part 5).  Every command prints, after the usual "scan msgs=.. rc=.." line, one
// "own ..." line: fds=<open descriptors after - before, temp files and own descriptors closed>, buf=same|changed
// (checksum of the caller's buffer), file=same|changed (st_ino/st_size/st_mtim of the scanned file),
// fd=open|closed,same|other,pos=<lseek position now>:<before>,flags=<F_GETFD> for a descriptor the caller passed in.
//   own <rmem|smem|rfile|sfile|rfd|sfd> <flags> <hex>       one scan through that entry point on fresh resources
//   ownpath <rfile|sfile> <missing|dir|empty|unreadable>     the path-based entry points on paths that fail (or not)
//   fdopen <hex> <pos>   create a file, open ONE descriptor on it, seek to pos; kept until fdend
//   fdscan <r|s> <flags> yr_rules_scan_fd / yr_scanner_scan_fd on that descriptor
//   fddecoy <hex>        open an unrelated file (a closed descriptor number would now refer to it); kept until fdend
//   fdend                close and unlink everything
// Hostile neighbours (C13 part 2c): nothing outside the bytes handed over may influence a result.
//   gscan <rmem|smem> <slicea|slicew|heap|pnend|pnstart> <flags> <hex>
//        the bytes are scanned as a slice of a larger buffer whose neighbouring bytes are alphanumeric (slicea: 'A'
//        directly before and after; slicew: "A\\0" before and after, hostile for wide strings), as an exact-size heap
//        object (ASan variant sees any over/under-read), or in a mapping that ends / starts at a PROT_NONE page
//   pguard <none|slicea|slicew>   blocks of the persistent iterator are handed over as such slices (takes effect at piter)
// Arguments of the entry points (C13 part 6): every entry point with non-default, distinguishable flags and timeout
//   ft <rmem|rfile|rfd|rblocks|smem|sfile|sfd|sblocks> <flags> <timeout> <hex> [nocb]
//        nocb: no callback (rules-level: NULL passed; scanner-level: yr_scanner_set_callback(NULL), restored afterwards);
//        the callback script set by `script` applies as in every scan
//        rules-level: both passed to yr_rules_scan_*; scanner-level: yr_scanner_set_flags / yr_scanner_set_timeout first;
//        *blocks: the bytes as the single block of a fresh position-keeping iterator with a file_size function
//   config maxmatchdata <n>   yr_set_configuration(YR_CONFIG_MAX_MATCH_DATA) for the rest of the case (own process)
// Iterator semantics ("position keeping"): the iterator remembers the index of the last block it delivered
// (-1 at piter).  first(): if ready deliver block 0.  next(): if ready deliver block last+1.  A not-ready answer
// changes nothing but last_error.  Hence next() after a not-ready first() delivers block 0: this is what an
// iterator has to do for the documented retry to work, because the continuation always calls next().
// Every call is logged: f<i>/n<i> delivered block i, fE/nE end, fR/nR not ready.
#define main hscan_main_unused
#define run_case hscan_run_case_unused
#include "h_scan.c"
#undef main
#undef run_case
#include <yara/bitmask.h>
#include <dirent.h>
#include <sys/stat.h>

static struct
{
  int last;                       // index of the last delivered block, -1 = none
  YR_MEMORY_BLOCK_ITERATOR it;
  YR_MEMORY_BLOCK blk;
  int nulldata[64];
  char log[16384];
  int loglen;
  int guard;                      // 0 none, 1 slicea, 2 slicew: how p_fetch hands the blocks over
  uint8_t* gbuf[64];              // guarded copies of the blocks (built at piter)
  int naive;                      // pmode naive: first() rewinds before it knows whether it is ready
  int snap;                       // snapshot taken
  char rm[4096], ns[4096];
  HS* s;
} P;

static void p_log(char kind, int idx, char what)
{
  if (P.loglen > (int) sizeof P.log - 32) return;
  if (P.loglen) P.log[P.loglen++] = ',';
  if (what) P.loglen += sprintf(P.log + P.loglen, "%c%c", kind, what);
  else P.loglen += sprintf(P.log + P.loglen, "%c%d", kind, idx);
}

static const uint8_t* p_fetch(YR_MEMORY_BLOCK* b)
{
  intptr_t i = (intptr_t) b->context;
  if (P.nulldata[i]) return NULL;
  if (P.guard && P.gbuf[i]) return P.gbuf[i] + 8;
  return P.s->blk_data[i];
}

static YR_MEMORY_BLOCK* p_call(YR_MEMORY_BLOCK_ITERATOR* it, int is_first)
{
  HS* s = P.s;
  char kind = is_first ? 'f' : 'n';
  int c = s->nr_call;
  if (c < s->nr_len) s->nr_call++;
  if (P.naive && is_first) P.last = 0;   // "rewind, then try": next() will pre-increment to block 1
  if (c < s->nr_len && s->notready[c] == '1')
  {
    it->last_error = ERROR_BLOCK_NOT_READY;
    p_log(kind, 0, 'R');
    return NULL;
  }
  it->last_error = ERROR_SUCCESS;
  int i = is_first ? 0 : P.last + 1;
  P.last = i;
  if (i >= s->nblk) { p_log(kind, 0, 'E'); return NULL; }
  P.blk.base = s->blk_base[i];
  P.blk.size = s->blk_len[i];
  P.blk.context = (void*) (intptr_t) i;
  P.blk.fetch_data = p_fetch;
  p_log(kind, i, 0);
  return &P.blk;
}
static YR_MEMORY_BLOCK* p_first(YR_MEMORY_BLOCK_ITERATOR* it) { return p_call(it, 1); }
static YR_MEMORY_BLOCK* p_next(YR_MEMORY_BLOCK_ITERATOR* it) { return p_call(it, 0); }
static uint64_t p_fsize(YR_MEMORY_BLOCK_ITERATOR* it) { return P.s->fsz; }

static int proto_cb(YR_SCAN_CONTEXT* ctx, int msg, void* data, void* ud)
{
  if (msg == CALLBACK_MSG_RULE_MATCHING || msg == CALLBACK_MSG_RULE_NOT_MATCHING || msg == CALLBACK_MSG_SCAN_FINISHED)
  {
    uint32_t i;
    for (i = 0; i < ctx->rules->num_rules && i < sizeof P.rm - 1; i++)
      P.rm[i] = yr_bitmask_is_set(ctx->rule_matches_flags, i) ? '1' : '0';
    P.rm[i] = 0;
    for (i = 0; i < ctx->rules->num_namespaces && i < sizeof P.ns - 1; i++)
      P.ns[i] = yr_bitmask_is_set(ctx->ns_unsatisfied_flags, i) ? '1' : '0';
    P.ns[i] = 0;
    P.snap = 1;
  }
  return scan_cb(ctx, msg, data, ud);
}

static void p_bits(HS* s)
{
  if (P.snap) fprintf(s->out, "bits rm=%s ns=%s\n", P.rm[0] ? P.rm : "-", P.ns[0] ? P.ns : "-");
  else fprintf(s->out, "bits none\n");
  P.snap = 0;
}

static int p_one(HS* s, int rules_level, int flags)
{
  FILE* o = s->out;
  P.loglen = 0; P.log[0] = 0;
  P.it.file_size = s->fsz_known ? p_fsize : NULL;
  fprintf(o, "scan msgs=");
  int rc = rules_level ? yr_rules_scan_mem_blocks(cur_rules(s), &P.it, flags, proto_cb, s, 0)
                       : yr_scanner_scan_mem_blocks(s->scanner[s->cur], &P.it);
  fprintf(o, " rc=%d log=%s\n", rc, P.loglen ? P.log : "-");
  if (rc != ERROR_BLOCK_NOT_READY) s->msg_index = 0;
  return rc;
}


// ---- resources the caller owns
static struct
{
  int fd; char path[64]; struct stat st; off_t pos;
  int decoy[16]; char decoy_path[16][64]; int ndecoy;
} O = { -1 };

static int count_fds(void)
{
  DIR* d = opendir("/proc/self/fd");
  int n = 0;
  struct dirent* e;
  if (!d) return -1;
  while ((e = readdir(d)) != NULL) n++;
  closedir(d);
  return n - 3;   // ".", "..", the directory stream itself
}

static uint64_t cksum(const uint8_t* p, size_t n)
{
  uint64_t h = 1469598103934665603ULL;
  for (size_t i = 0; i < n; i++) { h ^= p[i]; h *= 1099511628211ULL; }
  return h;
}

static int mktmp(char* path, const uint8_t* b, size_t len)
{
  strcpy(path, "/dev/shm/hownXXXXXX");
  int fd = mkstemp(path);
  if (fd < 0) { strcpy(path, "/tmp/hownXXXXXX"); fd = mkstemp(path); }
  if (len) { ssize_t w = write(fd, b, len); (void) w; }
  return fd;
}

static int same_file(const struct stat* a, const struct stat* b)
{
  return a->st_ino == b->st_ino && a->st_dev == b->st_dev && a->st_size == b->st_size &&
         a->st_mtim.tv_sec == b->st_mtim.tv_sec && a->st_mtim.tv_nsec == b->st_mtim.tv_nsec;
}

static void fd_state(FILE* o, int fd, const struct stat* before, off_t pos)
{
  struct stat now;
  int fl = fcntl(fd, F_GETFD);
  if (fl == -1 || fstat(fd, &now) != 0) { fprintf(o, " fd=closed"); return; }
  fprintf(o, " fd=open,%s,pos=%lld:%lld,flags=%d", same_file(before, &now) ? "same" : "other",
          (long long) lseek(fd, 0, SEEK_CUR), (long long) pos, fl);
}

static void own_cmd(HS* s, char* p)
{
  FILE* o = s->out;
  char* e = tok(&p);
  int flags = atoi(tok(&p));
  size_t len;
  uint8_t* b = h_unhex(tok(&p), &len);
  int fds0 = count_fds();
  uint64_t ck = cksum(b, len);
  char path[64] = "";
  int fd = -1, rc = -1;
  struct stat st0, st1;
  off_t pos = 0;
  int is_file = !strcmp(e, "rfile") || !strcmp(e, "sfile"), is_fd = !strcmp(e, "rfd") || !strcmp(e, "sfd");
  if (is_file || is_fd)
  {
    fd = mktmp(path, b, len);
    if (is_file) { close(fd); fd = -1; }
    else { pos = len > 1 ? 1 : 0; lseek(fd, pos, SEEK_SET); }
    stat(path, &st0);
  }
  s->msg_index = 0;
  fprintf(o, "scan msgs=");
  if (e[0] == 's') yr_scanner_set_flags(s->scanner[s->cur], flags);
  if (!strcmp(e, "rmem")) rc = yr_rules_scan_mem(cur_rules(s), b, len, flags, scan_cb, s, 0);
  else if (!strcmp(e, "smem")) rc = yr_scanner_scan_mem(s->scanner[s->cur], b, len);
  else if (!strcmp(e, "rfile")) rc = yr_rules_scan_file(cur_rules(s), path, flags, scan_cb, s, 0);
  else if (!strcmp(e, "sfile")) rc = yr_scanner_scan_file(s->scanner[s->cur], path);
  else if (!strcmp(e, "rfd")) rc = yr_rules_scan_fd(cur_rules(s), fd, flags, scan_cb, s, 0);
  else if (!strcmp(e, "sfd")) rc = yr_scanner_scan_fd(s->scanner[s->cur], fd);
  fprintf(o, " rc=%d\n", rc);
  fprintf(o, "own entry=%s buf=%s", e, cksum(b, len) == ck ? "same" : "changed");
  if (is_file || is_fd)
  {
    int ok = stat(path, &st1) == 0 && same_file(&st0, &st1);
    fprintf(o, " file=%s", ok ? "same" : "changed");
    if (is_fd) { fd_state(o, fd, &st0, pos); close(fd); }
    unlink(path);
  }
  fprintf(o, " fds=%d\n", count_fds() - fds0);
  free(b);
}

static void ownpath_cmd(HS* s, char* p)
{
  FILE* o = s->out;
  char* e = tok(&p);
  char* kind = tok(&p);
  char path[64] = "/dev/shm/hown-missing-XXXXXX";
  int made = 0;
  if (!strcmp(kind, "dir")) { strcpy(path, "/dev/shm/howndXXXXXX"); if (!mkdtemp(path)) { strcpy(path, "/tmp/howndXXXXXX"); mkdtemp(path); } made = 2; }
  else if (!strcmp(kind, "empty")) { int fd = mktmp(path, NULL, 0); close(fd); made = 1; }
  else if (!strcmp(kind, "unreadable")) { int fd = mktmp(path, (const uint8_t*) "abcabc", 6); fchmod(fd, 0); close(fd); made = 1; }
  int fds0 = count_fds();
  s->msg_index = 0;
  fprintf(o, "scan msgs=");
  int rc = !strcmp(e, "rfile") ? yr_rules_scan_file(cur_rules(s), path, 0, scan_cb, s, 0)
                               : yr_scanner_scan_file(s->scanner[s->cur], path);
  fprintf(o, " rc=%d\n", rc);
  fprintf(o, "own entry=%s path=%s euid=%d fds=%d\n", e, kind, (int) geteuid(), count_fds() - fds0);
  if (made == 1) unlink(path);
  if (made == 2) rmdir(path);
}

static void fd_cmds(HS* s, const char* c, char* p)
{
  FILE* o = s->out;
  size_t len;
  if (!strcmp(c, "fdopen"))
  {
    uint8_t* b = h_unhex(tok(&p), &len);
    O.pos = atoi(tok(&p));
    O.fd = mktmp(O.path, b, len);
    lseek(O.fd, O.pos, SEEK_SET);
    fstat(O.fd, &O.st);
    fprintf(o, "fdopen fd=%s\n", O.fd >= 0 ? "ok" : "failed");
    free(b);
  }
  else if (!strcmp(c, "fdscan"))
  {
    char* which = tok(&p);
    int flags = atoi(tok(&p));
    int fds0 = count_fds(), rc;
    s->msg_index = 0;
    fprintf(o, "scan msgs=");
    if (which[0] == 'r') rc = yr_rules_scan_fd(cur_rules(s), O.fd, flags, scan_cb, s, 0);
    else { yr_scanner_set_flags(s->scanner[s->cur], flags); rc = yr_scanner_scan_fd(s->scanner[s->cur], O.fd); }
    fprintf(o, " rc=%d\n", rc);
    fprintf(o, "own entry=%cfd-kept", which[0]);
    fd_state(o, O.fd, &O.st, O.pos);
    fprintf(o, " fds=%d\n", count_fds() - fds0);
  }
  else if (!strcmp(c, "fddecoy"))
  {
    uint8_t* b = h_unhex(tok(&p), &len);
    if (O.ndecoy < 16)
    {
      int fd = mktmp(O.decoy_path[O.ndecoy], b, len);
      lseek(fd, 0, SEEK_SET);
      O.decoy[O.ndecoy++] = fd;
    }
    free(b);
  }
  else if (!strcmp(c, "fdend"))
  {
    // close only what is still ours: if the library closed O.fd a decoy may own that number now
    int reused = 0;
    for (int i = 0; i < O.ndecoy; i++) if (O.decoy[i] == O.fd) reused = 1;
    if (O.fd >= 0 && !reused) close(O.fd);
    if (O.path[0]) unlink(O.path);
    for (int i = 0; i < O.ndecoy; i++) { close(O.decoy[i]); unlink(O.decoy_path[i]); }
    O.fd = -1; O.ndecoy = 0; O.path[0] = 0;
  }
}

// ---- flags and timeout through every entry point
static void ft_cmd(HS* s, char* p)
{
  FILE* o = s->out;
  char* e = tok(&p);
  int flags = atoi(tok(&p));
  int timeout = atoi(tok(&p));
  size_t len;
  uint8_t* b = h_unhex(tok(&p), &len);
  int nocb = !strcmp(tok(&p), "nocb");
  YR_CALLBACK_FUNC cb = nocb ? NULL : scan_cb;
  char path[64] = "";
  int fd = -1, rc = -1;
  int is_file = !strcmp(e + 1, "file"), is_fd = !strcmp(e + 1, "fd"), is_blocks = !strcmp(e + 1, "blocks");
  if (is_file || is_fd) { fd = mktmp(path, b, len); lseek(fd, 0, SEEK_SET); }
  if (is_blocks)
  {
    for (int i = 0; i < s->nblk; i++) free(s->blk_data[i]);
    s->nblk = 1; s->blk_base[0] = 0; s->blk_len[0] = len;
    s->blk_data[0] = (uint8_t*) malloc(len + 1); if (len) memcpy(s->blk_data[0], b, len);
    s->fsz = len; s->fsz_known = 1; s->nr_len = 0; s->nr_call = 0;
    P.last = -1; P.it.context = NULL; P.it.first = p_first; P.it.next = p_next; P.it.last_error = ERROR_SUCCESS;
    P.it.file_size = p_fsize;
    for (int i = 0; i < 64; i++) { free(P.gbuf[i]); P.gbuf[i] = NULL; }
  }
  if (e[0] == 's') { yr_scanner_set_flags(s->scanner[s->cur], flags); yr_scanner_set_timeout(s->scanner[s->cur], timeout); }
  if (e[0] == 's' && nocb) yr_scanner_set_callback(s->scanner[s->cur], NULL, NULL);
  s->msg_index = 0;
  fprintf(o, "scan msgs=");
  if (!strcmp(e, "rmem")) rc = yr_rules_scan_mem(cur_rules(s), b, len, flags, cb, s, timeout);
  else if (!strcmp(e, "rfile")) rc = yr_rules_scan_file(cur_rules(s), path, flags, cb, s, timeout);
  else if (!strcmp(e, "rfd")) rc = yr_rules_scan_fd(cur_rules(s), fd, flags, cb, s, timeout);
  else if (!strcmp(e, "rblocks")) rc = yr_rules_scan_mem_blocks(cur_rules(s), &P.it, flags, cb, s, timeout);
  else if (!strcmp(e, "smem")) rc = yr_scanner_scan_mem(s->scanner[s->cur], b, len);
  else if (!strcmp(e, "sfile")) rc = yr_scanner_scan_file(s->scanner[s->cur], path);
  else if (!strcmp(e, "sfd")) rc = yr_scanner_scan_fd(s->scanner[s->cur], fd);
  else if (!strcmp(e, "sblocks")) rc = yr_scanner_scan_mem_blocks(s->scanner[s->cur], &P.it);
  fprintf(o, " rc=%d\n", rc);
  if (e[0] == 's' && nocb) yr_scanner_set_callback(s->scanner[s->cur], scan_cb, s);
  if (fd >= 0) { close(fd); unlink(path); }
  free(b);
}

// ---- hostile neighbours
static uint8_t* guarded_copy(const uint8_t* b, size_t len, int mode)
{
  // 8 guard bytes before and after; mode 1: 'A' adjacent on both sides; mode 2: "A\0" before, "A\0" after
  uint8_t* g = (uint8_t*) malloc(len + 16);
  for (int i = 0; i < 8; i++)
  {
    g[i] = mode == 1 ? ((i & 1) ? 'A' : 0) : ((i & 1) ? 0 : 'A');      // mode 1: ..\0A| ; mode 2: ..A\0|
    g[8 + len + i] = (i & 1) ? 0 : 'A';                                 // |A\0A\0..
  }
  if (len) memcpy(g + 8, b, len);
  return g;
}

static void gscan_cmd(HS* s, char* p)
{
  FILE* o = s->out;
  char* e = tok(&p);
  char* mode = tok(&p);
  int flags = atoi(tok(&p));
  size_t len;
  uint8_t* b = h_unhex(tok(&p), &len);
  uint8_t* base = NULL;
  const uint8_t* data = NULL;
  size_t maplen = 0;
  long pg = sysconf(_SC_PAGESIZE);
  if (!strcmp(mode, "slicea") || !strcmp(mode, "slicew")) { base = guarded_copy(b, len, mode[5] == 'a' ? 1 : 2); data = base + 8; }
  else if (!strcmp(mode, "heap")) { base = (uint8_t*) malloc(len ? len : 1); if (len) memcpy(base, b, len); data = base; }
  else
  {
    size_t pages = (len + pg - 1) / pg + 1;
    maplen = (pages + 1) * pg;
    base = (uint8_t*) mmap(NULL, maplen, PROT_READ | PROT_WRITE, MAP_PRIVATE | MAP_ANONYMOUS, -1, 0);
    memset(base, 'A', maplen);
    if (!strcmp(mode, "pnend"))
    {
      uint8_t* end = base + pages * pg;                 // data ends exactly where the inaccessible page starts
      if (len) memcpy(end - len, b, len);
      mprotect(end, pg, PROT_NONE);
      data = end - len;
    }
    else                                                  // pnstart: data starts right after an inaccessible page
    {
      if (len) memcpy(base + pg, b, len);
      mprotect(base, pg, PROT_NONE);
      data = base + pg;
    }
  }
  s->msg_index = 0;
  fprintf(o, "scan msgs=");
  int rc;
  if (e[0] == 'r') rc = yr_rules_scan_mem(cur_rules(s), data, len, flags, scan_cb, s, 0);
  else { yr_scanner_set_flags(s->scanner[s->cur], flags); rc = yr_scanner_scan_mem(s->scanner[s->cur], data, len); }
  fprintf(o, " rc=%d\n", rc);
  if (maplen) munmap(base, maplen); else free(base);
  free(b);
}

static void proto_cmd(HS* s, char* line)
{
  char* copy = strdup(line);
  char* p = copy;
  char* c = tok(&p);
  P.s = s;
  if (!strcmp(c, "pcb")) yr_scanner_set_callback(s->scanner[s->cur], proto_cb, s);
  else if (!strcmp(c, "piter"))
  {
    P.last = -1;
    P.it.context = NULL;
    P.it.first = p_first;
    P.it.next = p_next;
    P.it.last_error = ERROR_SUCCESS;
    s->nr_call = 0;
    s->msg_index = 0;
    for (int i = 0; i < 64; i++) { free(P.gbuf[i]); P.gbuf[i] = NULL; }
    if (P.guard)
      for (int i = 0; i < s->nblk && i < 64; i++) P.gbuf[i] = guarded_copy(s->blk_data[i], s->blk_len[i], P.guard);
  }
  else if (!strcmp(c, "nulldata"))
  {
    char* t = tok(&p);
    if (!strcmp(t, "-")) memset(P.nulldata, 0, sizeof P.nulldata);
    else P.nulldata[atoi(t) & 63] = 1;
  }
  else if (!strcmp(c, "pscan")) { p_one(s, 0, 0); p_bits(s); }
  else if (!strcmp(c, "prscan")) { p_one(s, 1, atoi(tok(&p))); p_bits(s); }
  else if (!strcmp(c, "ploop"))
  {
    int max = atoi(tok(&p)), n = 0, rc;
    do { rc = p_one(s, 0, 0); n++; } while (rc == ERROR_BLOCK_NOT_READY && n < max);
    fprintf(s->out, "ploop calls=%d last_rc=%d\n", n, rc);
    p_bits(s);
  }
  else if (!strcmp(c, "pbits")) p_bits(s);
  else if (!strcmp(c, "pmode")) P.naive = !strcmp(tok(&p), "naive");
  else if (!strcmp(c, "gscan")) gscan_cmd(s, p);
  else if (!strcmp(c, "ft")) ft_cmd(s, p);
  else if (!strcmp(c, "config"))     // config maxmatchdata <n> : process-global, i.e. for the rest of this case's process
  {
    char* what = tok(&p);
    uint32_t v = (uint32_t) strtoul(tok(&p), NULL, 10);
    int rc = !strcmp(what, "maxmatchdata") ? yr_set_configuration(YR_CONFIG_MAX_MATCH_DATA, &v) : -1;
    fprintf(s->out, "config %s=%u rc=%d\n", what, v, rc);
  }
  else if (!strcmp(c, "pguard")) { char* t = tok(&p); P.guard = !strcmp(t, "slicea") ? 1 : !strcmp(t, "slicew") ? 2 : 0; }
  else if (!strcmp(c, "own")) own_cmd(s, p);
  else if (!strcmp(c, "ownpath")) ownpath_cmd(s, p);
  else if (!strncmp(c, "fd", 2) && (!strcmp(c, "fdopen") || !strcmp(c, "fdscan") || !strcmp(c, "fddecoy") || !strcmp(c, "fdend"))) fd_cmds(s, c, p);
  else do_cmd(s, line);
  free(copy);
}

static void run_case(void* arg, FILE* out)
{
  CASE* cs = (CASE*) arg;
  HS* s = (HS*) calloc(1, sizeof(HS));
  s->out = out;
  s->want_strings = 1;
  memset(&P, 0, sizeof P);
  P.last = -1;
  for (int i = 0; i < cs->n; i++)
  {
    if (s->stop && strncmp(cs->lines[i], "force ", 6) != 0) continue;
    proto_cmd(s, cs->lines[i]);
    fflush(out);
  }
  if (__lsan_do_recoverable_leak_check)
  {
    int leaks = __lsan_do_recoverable_leak_check();
    fprintf(out, "leakcheck %d\n", leaks);
  }
}

int main(int argc, char** argv)
{
  int timeout = argc > 1 ? atoi(argv[1]) : 60;
  yr_initialize();
  char* line;
  CASE cs = {0};
  int cap = 0;
  char id[256] = "";
  int in_case = 0;
  while ((line = h_readline(stdin)) != NULL)
  {
    if (!strncmp(line, "case ", 5)) { strncpy(id, line + 5, 255); in_case = 1; cs.n = 0; free(line); continue; }
    if (!strcmp(line, "endcase"))
    {
      printf("case %s\n", id);
      h_in_child(run_case, &cs, timeout);
      printf("endcase %s\n", id);
      fflush(stdout);
      for (int i = 0; i < cs.n; i++) free(cs.lines[i]);
      cs.n = 0;
      in_case = 0;
      free(line);
      continue;
    }
    if (in_case)
    {
      if (cs.n == cap) { cap = cap ? cap * 2 : 64; cs.lines = (char**) realloc(cs.lines, cap * sizeof(char*)); }
      cs.lines[cs.n++] = line;
    }
    else free(line);
  }
  yr_finalize();
  return 0;
}
