// h_scan: general compile / save / load / define / scan driver.  Reads cases from stdin:
//   case <id>
//   <commands...>
//   endcase
// Every case is executed in a forked child; output lines are echoed between "case <id>" and
// "endcase <id>".  All payloads are hex ("-" = empty).  See do_cmd for the command list.
#include "hcommon.h"
#include <fcntl.h>
#include <math.h>
#include <sys/stat.h>

#ifdef YARA_VERIF
extern size_t yr_verif_initial_arena_size;
#endif

#define MAXF 64
typedef struct { char* name; uint8_t* data; size_t len; } HFILE;

typedef struct
{
  YR_COMPILER* compiler;
  YR_RULES* rules;
  YR_RULES* rules2;    // loaded copy
  YR_SCANNER* scanner[8];
  int cur;             // current scanner
  int use_loaded;      // scan with rules2
  char ns[256];
  int has_ns;
  char* diskdir;
  HFILE files[MAXF];
  int nfiles;
  // callback script
  int script_k[64];
  int script_act[64];
  int nscript;
  int msg_index;
  int want_strings;
  FILE* out;
  // block iterator script
  uint8_t* blk_data[64];
  size_t blk_len[64];
  uint64_t blk_base[64];
  int nblk;
  int blk_pos;
  char notready[4096];   // per-call answers: '1' = not ready
  int nr_len;
  int nr_call;
  YR_MEMORY_BLOCK blk;
  int fsz_known;
  uint64_t fsz;
  int errors;
  int stop;
} HS;

static void compile_cb(int level, const char* file, int line, const YR_RULE* rule, const char* msg, void* ud)
{
  HS* s = (HS*) ud;
  fprintf(s->out, "cb level=%s line=%d file=%s rule=%s msg=", level == YARA_ERROR_LEVEL_ERROR ? "e" : "w", line,
          file ? file : "-", rule ? rule->identifier : "-");
  h_puthex(s->out, (const uint8_t*) msg, strlen(msg));
  fprintf(s->out, "\n");
}

static const char* include_cb(const char* name, const char* calling_file, const char* calling_ns, void* ud)
{
  HS* s = (HS*) ud;
  for (int i = 0; i < s->nfiles; i++)
    if (strcmp(s->files[i].name, name) == 0)
    {
      char* c = (char*) malloc(s->files[i].len + 1);
      memcpy(c, s->files[i].data, s->files[i].len);
      c[s->files[i].len] = 0;
      return c;
    }
  return NULL;
}

static void include_free(const char* p, void* ud) { free((void*) p); }

static int scan_cb(YR_SCAN_CONTEXT* ctx, int msg, void* data, void* ud)
{
  HS* s = (HS*) ud;
  FILE* o = s->out;
  int idx = s->msg_index++;
  switch (msg)
  {
  case CALLBACK_MSG_RULE_MATCHING:
  case CALLBACK_MSG_RULE_NOT_MATCHING:
  {
    YR_RULE* r = (YR_RULE*) data;
    fprintf(o, "%c:%s:%s", msg == CALLBACK_MSG_RULE_MATCHING ? 'M' : 'N', r->ns->name, r->identifier);
    if (s->want_strings)
    {
      YR_STRING* str;
      fprintf(o, ":");
      yr_rule_strings_foreach(r, str)
      {
        YR_MATCH* m;
        fprintf(o, "%s=", str->identifier);
        yr_string_matches_foreach(ctx, str, m)
        {
          fprintf(o, "%lld/%d/%d/%d,", (long long) (m->base + m->offset), m->match_length, m->data_length, (int) m->xor_key);
        }
        fprintf(o, "|");
      }
    }
    fprintf(o, ";");
    break;
  }
  case CALLBACK_MSG_SCAN_FINISHED:
    fprintf(o, "F;");
    break;
  case CALLBACK_MSG_IMPORT_MODULE:
    fprintf(o, "I:%s;", ((YR_MODULE_IMPORT*) data)->module_name);
    break;
  case CALLBACK_MSG_MODULE_IMPORTED:
    fprintf(o, "D:%s;", ((YR_OBJECT*) data)->identifier);
    break;
  case CALLBACK_MSG_TOO_MANY_MATCHES:
    fprintf(o, "T:%s;", ((YR_STRING*) data)->identifier);
    break;
  case CALLBACK_MSG_CONSOLE_LOG:
    fprintf(o, "C:");
    h_puthex(o, (const uint8_t*) data, strlen((const char*) data));
    fprintf(o, ";");
    break;
  case CALLBACK_MSG_TOO_SLOW_SCANNING:
    fprintf(o, "S:%s;", ((YR_STRING*) data)->identifier);
    break;
  default:
    fprintf(o, "?%d;", msg);
  }
  for (int i = 0; i < s->nscript; i++)
    if (s->script_k[i] == idx)
      return s->script_act[i];
  return CALLBACK_CONTINUE;
}

// ---- scripted block iterator (C13)
static YR_MEMORY_BLOCK* it_get(HS* s, int pos)
{
  if (s->nr_call < s->nr_len && s->notready[s->nr_call++] == '1')
  {
    // not ready: the iterator keeps its position
    return NULL;
  }
  if (pos >= s->nblk)
    return NULL;
  s->blk.base = s->blk_base[pos];
  s->blk.size = s->blk_len[pos];
  s->blk.context = s->blk_data[pos];
  return &s->blk;
}
static const uint8_t* it_fetch(YR_MEMORY_BLOCK* b) { return (const uint8_t*) b->context; }

static YR_MEMORY_BLOCK* it_first(YR_MEMORY_BLOCK_ITERATOR* it)
{
  HS* s = (HS*) it->context;
  int call = s->nr_call;
  YR_MEMORY_BLOCK* b = it_get(s, 0);
  if (b == NULL && call < s->nr_len && s->notready[call] == '1') { it->last_error = ERROR_BLOCK_NOT_READY; return NULL; }
  it->last_error = ERROR_SUCCESS;
  s->blk_pos = 0;
  return b;
}
static YR_MEMORY_BLOCK* it_next(YR_MEMORY_BLOCK_ITERATOR* it)
{
  HS* s = (HS*) it->context;
  int call = s->nr_call;
  YR_MEMORY_BLOCK* b = it_get(s, s->blk_pos + 1);
  if (b == NULL && call < s->nr_len && s->notready[call] == '1') { it->last_error = ERROR_BLOCK_NOT_READY; return NULL; }
  it->last_error = ERROR_SUCCESS;
  s->blk_pos++;
  return b;
}
static uint64_t it_fsize(YR_MEMORY_BLOCK_ITERATOR* it)
{
  HS* s = (HS*) it->context;
  return s->fsz;
}

static YR_RULES* cur_rules(HS* s) { return s->use_loaded ? s->rules2 : s->rules; }

static char* tok(char** p)
{
  char* s = *p;
  while (*s == ' ') s++;
  if (!*s) { *p = s; return s; }
  char* e = s;
  while (*e && *e != ' ') e++;
  if (*e) { *e = 0; e++; }
  *p = e;
  return s;
}

static void dump_rules(HS* s, YR_RULES* rules)
{
  FILE* o = s->out;
  YR_RULE* r;
  YR_EXTERNAL_VARIABLE* e;
  fprintf(o, "dump ");
  yr_rules_foreach(rules, r)
  {
    const char* tag;
    YR_META* m;
    YR_STRING* str;
    fprintf(o, "R:%s:%s:f%d:tags=", r->ns->name, r->identifier, r->flags & (RULE_FLAGS_PRIVATE | RULE_FLAGS_GLOBAL));
    yr_rule_tags_foreach(r, tag) fprintf(o, "%s,", tag);
    fprintf(o, ":metas=");
    yr_rule_metas_foreach(r, m)
    {
      fprintf(o, "%s/%d/%lld/", m->identifier, m->type, (long long) m->integer);
      if (m->string) h_puthex(o, (const uint8_t*) m->string, strlen(m->string)); else fprintf(o, "null");
      fprintf(o, ",");
    }
    fprintf(o, ":strs=");
    yr_rule_strings_foreach(r, str) fprintf(o, "%s/%u/%d,", str->identifier, str->flags, str->length);
    fprintf(o, ";");
  }
  e = rules->ext_vars_table;
  if (e != NULL)
    for (; !EXTERNAL_VARIABLE_IS_NULL(e); e++)
    {
      fprintf(o, "E:%s:%d:", e->identifier, e->type);
      if (e->type == EXTERNAL_VARIABLE_TYPE_STRING || e->type == EXTERNAL_VARIABLE_TYPE_MALLOC_STRING)
      { if (e->value.s) h_puthex(o, (const uint8_t*) e->value.s, strlen(e->value.s)); else fprintf(o, "null"); }
      else if (e->type == EXTERNAL_VARIABLE_TYPE_FLOAT) fprintf(o, "%.17g", e->value.f);
      else fprintf(o, "%lld", (long long) e->value.i);
      fprintf(o, ";");
    }
  fprintf(o, "\n");
}

static void do_cmd(HS* s, char* line)
{
  FILE* o = s->out;
  char* p = line;
  char* c = tok(&p);
  size_t len;
  if (!strcmp(c, "arena"))
  {
#ifdef YARA_VERIF
    yr_verif_initial_arena_size = (size_t) strtoull(tok(&p), NULL, 10);
#endif
  }
  else if (!strcmp(c, "newcompiler"))
  {
    int rc = yr_compiler_create(&s->compiler);
    if (rc == 0) { yr_compiler_set_callback(s->compiler, compile_cb, s);
      yr_compiler_set_include_callback(s->compiler, include_cb, include_free, s); }
    fprintf(o, "newcompiler rc=%d\n", rc);
  }
  else if (!strcmp(c, "newcompiler2"))
  {
    s->errors = 0; s->stop = 0;
    int rc = yr_compiler_create(&s->compiler);
    if (rc == 0) yr_compiler_set_callback(s->compiler, compile_cb, s);
    fprintf(o, "newcompiler2 rc=%d\n", rc);
  }
  else if (!strcmp(c, "getrules2"))
  {
    int rc = s->errors ? -1 : yr_compiler_get_rules(s->compiler, &s->rules);
    fprintf(o, "getrules2 rc=%d\n", rc);
  }
  else if (!strcmp(c, "force")) { do_cmd(s, p); }
  else if (!strcmp(c, "junk"))
  {
    // shift heap addresses: allocate and keep <n> blocks of <size> bytes
    int n = atoi(tok(&p)); int size = atoi(tok(&p));
    for (int i = 0; i < n; i++) { volatile char* q = (char*) malloc(size); if (q) q[0] = 1; }
  }
  else if (!strcmp(c, "file"))
  {
    char* name = tok(&p);
    HFILE* f = &s->files[s->nfiles++];
    f->name = strdup(name);
    f->data = h_unhex(tok(&p), &f->len);
  }
  else if (!strcmp(c, "ns")) { strncpy(s->ns, tok(&p), 255); s->has_ns = strcmp(s->ns, "-") != 0; }
  else if (!strcmp(c, "add"))
  {
    uint8_t* src = h_unhex(tok(&p), &len);
    int e = yr_compiler_add_string(s->compiler, (const char*) src, s->has_ns ? s->ns : NULL);
    fprintf(o, "add errors=%d\n", e);
    s->errors += e;
    free(src);
  }
  else if (!strcmp(c, "strictescape")) { s->compiler->strict_escape = true; fprintf(o, "strictescape\n"); }   // what yara -E sets
  else if (!strcmp(c, "diskdir"))
  {
    // a fresh directory on disk becomes the working directory of this case (files for the DEFAULT include callback)
    static char dir[] = "/dev/shm/hscan-dir-XXXXXX";
    if (mkdtemp(dir) != NULL && chdir(dir) == 0) { s->diskdir = strdup(dir); fprintf(o, "diskdir rc=0\n"); }
    else fprintf(o, "diskdir rc=-1\n");
  }
  else if (!strcmp(c, "diskfile"))
  {
    // diskfile <relative path> <hex content>: creates the directories of the path, writes the file
    char* name = tok(&p);
    uint8_t* data = h_unhex(tok(&p), &len);
    char tmp[4096];
    strncpy(tmp, name, sizeof(tmp) - 1); tmp[sizeof(tmp) - 1] = 0;
    for (char* q = tmp + 1; *q; q++) if (*q == '/') { *q = 0; mkdir(tmp, 0700); *q = '/'; }
    FILE* f = fopen(name, "wb");
    if (f != NULL) { fwrite(data, 1, len, f); fclose(f); }
    fprintf(o, "diskfile rc=%d\n", f != NULL ? 0 : -1);
    free(data);
  }
  else if (!strcmp(c, "addfile"))
  {
    // addfile <path>: yr_compiler_add_file under that file name (use after newcompiler2: default include callback)
    char* name = tok(&p);
    FILE* f = fopen(name, "r");
    if (f == NULL) fprintf(o, "addfile open-failed\n");
    else
    {
      int e = yr_compiler_add_file(s->compiler, f, s->has_ns ? s->ns : NULL, name);
      fclose(f);
      fprintf(o, "add errors=%d\n", e);
      s->errors += e;
    }
  }
  else if (!strcmp(c, "diskclean"))
  {
    if (s->diskdir != NULL) { char cmd[300]; if (chdir("/") == 0) { snprintf(cmd, sizeof(cmd), "rm -rf '%s'", s->diskdir); if (system(cmd)) {} } }
    fprintf(o, "diskclean\n");
  }
  else if (!strcmp(c, "atomq"))
  {
    // atomq <entries> <warning_threshold> <hex table: entries*(YR_MAX_ATOM_LENGTH+1) bytes>
    int entries = atoi(tok(&p));
    int thr = atoi(tok(&p));
    uint8_t* t = h_unhex(tok(&p), &len);   // must stay alive
    yr_compiler_set_atom_quality_table(s->compiler, t, entries, (unsigned char) thr);
  }
  else if (!strcmp(c, "defi") || !strcmp(c, "defb") || !strcmp(c, "deff") || !strcmp(c, "defs") ||
           !strcmp(c, "rdefi") || !strcmp(c, "rdefb") || !strcmp(c, "rdeff") || !strcmp(c, "rdefs") ||
           !strcmp(c, "sdefi") || !strcmp(c, "sdefb") || !strcmp(c, "sdeff") || !strcmp(c, "sdefs"))
  {
    char lvl = c[0] == 'd' ? 'c' : c[0];
    char ty = c[strlen(c) - 1];
    char* name = tok(&p);
    char* val = tok(&p);
    int rc = -1;
    uint8_t* sv = NULL;
    const char* svp = NULL;
    if (ty == 's') { if (strcmp(val, "NULL") != 0) { sv = h_unhex(val, &len); svp = (const char*) sv; } }
    if (lvl == 'c')
      rc = ty == 'i'   ? yr_compiler_define_integer_variable(s->compiler, name, strtoll(val, NULL, 10))
           : ty == 'b' ? yr_compiler_define_boolean_variable(s->compiler, name, atoi(val))
           : ty == 'f' ? yr_compiler_define_float_variable(s->compiler, name, strtod(val, NULL))
                       : yr_compiler_define_string_variable(s->compiler, name, svp);
    else if (lvl == 'r')
      rc = ty == 'i'   ? yr_rules_define_integer_variable(cur_rules(s), name, strtoll(val, NULL, 10))
           : ty == 'b' ? yr_rules_define_boolean_variable(cur_rules(s), name, atoi(val))
           : ty == 'f' ? yr_rules_define_float_variable(cur_rules(s), name, strtod(val, NULL))
                       : yr_rules_define_string_variable(cur_rules(s), name, svp);
    else
      rc = ty == 'i'   ? yr_scanner_define_integer_variable(s->scanner[s->cur], name, strtoll(val, NULL, 10))
           : ty == 'b' ? yr_scanner_define_boolean_variable(s->scanner[s->cur], name, atoi(val))
           : ty == 'f' ? yr_scanner_define_float_variable(s->scanner[s->cur], name, strtod(val, NULL))
                       : yr_scanner_define_string_variable(s->scanner[s->cur], name, svp);
    fprintf(o, "%s rc=%d\n", c, rc);
    free(sv);
  }
  else if (!strcmp(c, "getrules"))
  {
    if (s->errors > 0) { fprintf(o, "getrules skipped\n"); s->stop = 1; return; }  // API contract: no get_rules after errors
    int rc = yr_compiler_get_rules(s->compiler, &s->rules);
    fprintf(o, "getrules rc=%d\n", rc);
    if (rc != 0) s->stop = 1;
  }
  else if (!strcmp(c, "destroycompiler")) { if (s->compiler) yr_compiler_destroy(s->compiler); s->compiler = NULL; }
  else if (!strcmp(c, "save"))
  {
    HMEM m = {0};
    YR_STREAM ws;
    ws.user_data = &m; ws.write = (YR_STREAM_WRITE_FUNC) hmem_write; ws.read = NULL;
    int rc = yr_rules_save_stream(cur_rules(s), &ws);
    fprintf(o, "save rc=%d image=", rc);
    h_puthex(o, m.data, m.len);
    fprintf(o, "\n");
    free(m.data);
  }
  else if (!strcmp(c, "loadimg") || !strcmp(c, "reload"))
  {
    HMEM m = {0};
    if (!strcmp(c, "reload"))
    {
      YR_STREAM ws;
      ws.user_data = &m; ws.write = (YR_STREAM_WRITE_FUNC) hmem_write; ws.read = NULL;
      yr_rules_save_stream(s->rules, &ws);
    }
    else m.data = h_unhex(tok(&p), &m.len);
    YR_STREAM rs;
    rs.user_data = &m; rs.read = (YR_STREAM_READ_FUNC) hmem_read; rs.write = NULL;
    int rc = yr_rules_load_stream(&rs, &s->rules2);
    fprintf(o, "%s rc=%d\n", c, rc);
    free(m.data);
  }
  else if (!strcmp(c, "use")) { s->use_loaded = !strcmp(tok(&p), "loaded"); }
  else if (!strcmp(c, "dump")) dump_rules(s, cur_rules(s));
  else if (!strcmp(c, "scanner"))
  {
    s->cur = atoi(tok(&p));
    int rc = yr_scanner_create(cur_rules(s), &s->scanner[s->cur]);
    if (rc == 0) yr_scanner_set_callback(s->scanner[s->cur], scan_cb, s);
    fprintf(o, "scanner rc=%d\n", rc);
  }
  else if (!strcmp(c, "sel")) s->cur = atoi(tok(&p));
  else if (!strcmp(c, "sflags")) yr_scanner_set_flags(s->scanner[s->cur], atoi(tok(&p)));
  else if (!strcmp(c, "stimeout")) yr_scanner_set_timeout(s->scanner[s->cur], atoi(tok(&p)));
  else if (!strcmp(c, "sdestroy")) { yr_scanner_destroy(s->scanner[s->cur]); s->scanner[s->cur] = NULL; }
  else if (!strcmp(c, "strings")) s->want_strings = atoi(tok(&p));
  else if (!strcmp(c, "script"))
  {
    // script k:a,k:a   (a: 1 abort, 2 error) ; "script -" clears
    s->nscript = 0;
    char* t = tok(&p);
    if (strcmp(t, "-") != 0)
      while (*t)
      {
        s->script_k[s->nscript] = (int) strtol(t, &t, 10);
        if (*t == ':') t++;
        s->script_act[s->nscript] = (int) strtol(t, &t, 10);
        s->nscript++;
        if (*t == ',') t++;
      }
  }
  else if (!strcmp(c, "scan"))      // scanner-level scan of one buffer
  {
    uint8_t* b = h_unhex(tok(&p), &len);
    // the scanned bytes sit between two alphanumeric guard characters ("A\0" on both sides, which is also a wide 'A'): a test that looks
    // one or two bytes before or after the data (fullword delimiters, word boundaries) sees a word character there, not the NUL that
    // usually follows a C string, so an off-by-one in such a test changes the result instead of going unnoticed
    uint8_t* g = (uint8_t*) malloc(len + 4);
    g[0] = 'A'; g[1] = 0; memcpy(g + 2, b, len); g[len + 2] = 'A'; g[len + 3] = 0;
    s->msg_index = 0;
    fprintf(o, "scan msgs=");
    int rc = yr_scanner_scan_mem(s->scanner[s->cur], g + 2, len);
    fprintf(o, " rc=%d\n", rc);
    free(g);
    free(b);
  }
  else if (!strcmp(c, "rscan"))     // rules-level: rscan <flags> <timeout> <hex>
  {
    int flags = atoi(tok(&p));
    int timeout = atoi(tok(&p));
    uint8_t* b = h_unhex(tok(&p), &len);
    s->msg_index = 0;
    fprintf(o, "scan msgs=");
    int rc = yr_rules_scan_mem(cur_rules(s), b, len, flags, scan_cb, s, timeout);
    fprintf(o, " rc=%d\n", rc);
    free(b);
  }
  else if (!strcmp(c, "scanfile") || !strcmp(c, "scanfd") || !strcmp(c, "rscanfile") || !strcmp(c, "rscanfd"))
  {
    int flags = atoi(tok(&p));
    uint8_t* b = h_unhex(tok(&p), &len);
    char path[] = "/dev/shm/hscanXXXXXX";
    int fd = mkstemp(path);
    if (fd < 0) { strcpy(path, "/tmp/hscanXXXXXX"); fd = mkstemp(path); }
    if (len) { ssize_t w = write(fd, b, len); (void) w; }
    lseek(fd, 0, SEEK_SET);
    s->msg_index = 0;
    fprintf(o, "scan msgs=");
    int rc;
    if (c[0] == 'r')
      rc = !strcmp(c, "rscanfile") ? yr_rules_scan_file(cur_rules(s), path, flags, scan_cb, s, 0)
                                   : yr_rules_scan_fd(cur_rules(s), fd, flags, scan_cb, s, 0);
    else
    {
      yr_scanner_set_flags(s->scanner[s->cur], flags);
      rc = !strcmp(c, "scanfile") ? yr_scanner_scan_file(s->scanner[s->cur], path)
                                  : yr_scanner_scan_fd(s->scanner[s->cur], fd);
    }
    fprintf(o, " rc=%d\n", rc);
    close(fd);
    unlink(path);
    free(b);
  }
  else if (!strcmp(c, "blocks"))
  {
    // blocks <filesize|-> <base:hex> <base:hex> ...   sets the block list of the scripted iterator
    char* f = tok(&p);
    s->fsz = strcmp(f, "-") ? strtoull(f, NULL, 10) : YR_UNDEFINED;
    s->fsz_known = strcmp(f, "-") != 0;
    s->nblk = 0;
    for (;;)
    {
      char* t = tok(&p);
      if (!*t) break;
      char* colon = strchr(t, ':');
      *colon = 0;
      s->blk_base[s->nblk] = strtoull(t, NULL, 10);
      s->blk_data[s->nblk] = h_unhex(colon + 1, &s->blk_len[s->nblk]);
      s->nblk++;
    }
  }
  else if (!strcmp(c, "notready"))
  {
    char* t = tok(&p);
    if (!strcmp(t, "-")) t = "";
    strncpy(s->notready, t, sizeof s->notready - 1);
    s->nr_len = (int) strlen(s->notready);
    s->nr_call = 0;
  }
  else if (!strcmp(c, "scanblocks"))
  {
    YR_MEMORY_BLOCK_ITERATOR it;
    it.context = s;
    it.first = it_first;
    it.next = it_next;
    it.file_size = s->fsz_known ? it_fsize : NULL;
    it.last_error = ERROR_SUCCESS;
    s->blk.fetch_data = it_fetch;
    fprintf(o, "scan msgs=");
    int rc = yr_scanner_scan_mem_blocks(s->scanner[s->cur], &it);
    fprintf(o, " rc=%d calls=%d\n", rc, s->nr_call);
    if (rc != ERROR_BLOCK_NOT_READY) s->msg_index = 0;
  }
  else if (!strcmp(c, "resetidx")) s->msg_index = 0;
  else if (!strcmp(c, "destroyrules"))
  {
    if (s->rules) yr_rules_destroy(s->rules);
    s->rules = NULL;
  }
  else if (!strcmp(c, "destroyloaded"))
  {
    if (s->rules2) yr_rules_destroy(s->rules2);
    s->rules2 = NULL;
  }
  else if (!strcmp(c, "disable") || !strcmp(c, "enable"))
  {
    char* name = tok(&p);
    YR_RULE* r;
    yr_rules_foreach(cur_rules(s), r)
      if (!strcmp(r->identifier, name)) { if (c[0] == 'd') yr_rule_disable(r); else yr_rule_enable(r); }
  }
  else if (*c) fprintf(o, "unknown command %s\n", c);
}

typedef struct { char** lines; int n; } CASE;

int __lsan_do_recoverable_leak_check(void) __attribute__((weak));

static void run_case(void* arg, FILE* out)
{
  CASE* cs = (CASE*) arg;
  HS* s = (HS*) calloc(1, sizeof(HS));
  s->out = out;
  s->want_strings = 1;
  for (int i = 0; i < cs->n; i++)
  {
    if (s->stop && strncmp(cs->lines[i], "force ", 6) != 0) continue;   // nothing to run on without rules
    do_cmd(s, cs->lines[i]);
    fflush(out);
  }
  if (__lsan_do_recoverable_leak_check)
  {
    // everything the case created must have been destroyed by its own commands
    int leaks = __lsan_do_recoverable_leak_check();
    fprintf(out, "leakcheck %d\n", leaks);
  }
}

int main(int argc, char** argv)
{
  int timeout = argc > 1 ? atoi(argv[1]) : 60;
  yr_initialize();
  char* line;
  CASE cs = {0};
  int cap = 0;
  char id[256] = "";
  int in_case = 0;
  while ((line = h_readline(stdin)) != NULL)
  {
    if (!strncmp(line, "case ", 5)) { strncpy(id, line + 5, 255); in_case = 1; cs.n = 0; free(line); continue; }
    if (!strcmp(line, "endcase"))
    {
      printf("case %s\n", id);
      h_in_child(run_case, &cs, timeout);
      printf("endcase %s\n", id);
      fflush(stdout);
      for (int i = 0; i < cs.n; i++) free(cs.lines[i]);
      cs.n = 0;
      in_case = 0;
      free(line);
      continue;
    }
    if (in_case)
    {
      if (cs.n == cap) { cap = cap ? cap * 2 : 64; cs.lines = (char**) realloc(cs.lines, cap * sizeof(char*)); }
      cs.lines[cs.n++] = line;
    }
    else free(line);
  }
  yr_finalize();
  return 0;
}
