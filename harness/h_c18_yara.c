// C18: the real `yara` binary built from /repo's current tree: cli/yara.c (compiled with
// -Dmain=yara_main), cli/args.c, cli/common.c, cli/threading.c and libyara.a from the build cache.
int yara_main(int argc, const char** argv);
int main(int argc, const char** argv) { return yara_main(argc, argv); }
