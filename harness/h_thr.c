// h_thr: N threads scanning over ONE shared rule set (C09).
//
//  * the rules are compiled, saved to memory and loaded again with every allocation of the load placed (through the
//    link-time wrapped allocator below) on its own pages inside one reserved region; for the duration of a run those
//    pages are PROT_READ: a write into the shared rules faults, is logged (entry, offset, thread) by the SIGSEGV
//    handler, the page is opened and the run goes on (first write per page and run).  libyara on Linux catches only
//    SIGBUS (exception.h: CATCH_SIGSEGV 0), so the two handlers do not meet; if libyara is changed to catch SIGSEGV
//    its handler chains to this one.
//  * every thread writes its callback trace into its own buffer; rendezvous points inside callbacks stop all
//    threads at once so that exception_handler_usecount, the SIGBUS disposition and the TLS slot can be read;
//    a sampler thread takes consistent snapshots (under exception_handler_mutex) all the time.
//
// stdin:  case <id> / commands / endcase   (one forked child per case).  Commands:
//   ext i|b|f|s <name> <value>            compile-time external
//   rules <hex source>                    compile + save + load (tracked)
//   track 0|1                             (before rules) place the loaded rules in the protected region (default 1)
//   buf <hex> | buffile <path>            register a buffer (index = order)
//   job k=v ...                           define a job (index = order):
//        mode=scanner|rules|file|rfile|fd  buf=<i> flags=<n> timeout=<s> tns=<ns> ext=<name>:<i|b|f|s>:<value> (repeat)
//        abort=<k>:<1|2>  rdv=I|M|B  reps=<n>  disable=<rule idx>  moddata=<str>  trunc=1  nested=1
//        park=C|T|I|D|M|S  (held inside its first callback of that kind, before reading the message, while the
//        release=1 threads of the run complete a scan each; no release thread in the run: no parking)
//   watch <hex addr> <size> <name>        a writable global of libyara (address from nm on this non-PIE binary): compared
//                                         before / after every run, a change is printed as "G name=.. off=.."
//   run <protect 0|1> <job> <job> ...      one thread per listed job, all started together
#include "hcommon.h"
#include <stdarg.h>
#include <pthread.h>
#include <fcntl.h>
#include <errno.h>
#include <malloc.h>
#include <stdatomic.h>
#include <semaphore.h>
#include <time.h>
#include <sys/stat.h>

// internals of libyara (libyara.c:53-63); weak: a tree that hides them still links, the observations are then
// reduced to what sigaction() shows
extern int exception_handler_usecount __attribute__((weak));
extern pthread_mutex_t exception_handler_mutex __attribute__((weak));
extern pthread_key_t yr_trycatch_trampoline_tls __attribute__((weak));

// ------------------------------------------------------------------------------------------- tracked allocator
void* __real_malloc(size_t);
void* __real_calloc(size_t, size_t);
void* __real_realloc(void*, size_t);
void __real_free(void*);

#define REG_SIZE (1ULL << 31)
#define MAXENT 400000
typedef struct { size_t off, len, req; int live; char label[28]; } HENT;
static uint8_t* reg_base = NULL;
static size_t reg_used = 0;
static HENT* ents = NULL;
static int nent = 0;
static volatile int h_track = 0;
static volatile int h_protected = 0;
static atomic_flag reg_lock = ATOMIC_FLAG_INIT;

static int in_region(const void* p)
{
  return reg_base != NULL && (const uint8_t*) p >= reg_base && (const uint8_t*) p < reg_base + REG_SIZE;
}

static void reg_init(void)
{
  if (reg_base) return;
  reg_base = (uint8_t*) mmap(NULL, REG_SIZE, PROT_NONE, MAP_PRIVATE | MAP_ANONYMOUS | MAP_NORESERVE, -1, 0);
  if (reg_base == MAP_FAILED) { perror("mmap region"); _exit(3); }
  ents = (HENT*) mmap(NULL, sizeof(HENT) * MAXENT, PROT_READ | PROT_WRITE, MAP_PRIVATE | MAP_ANONYMOUS, -1, 0);
}

static void* reg_alloc(size_t n)
{
  while (atomic_flag_test_and_set(&reg_lock)) {}
  reg_init();
  size_t len = (n + 4095) & ~(size_t) 4095;
  if (len == 0) len = 4096;
  if (nent >= MAXENT || reg_used + len + 4096 > REG_SIZE) { atomic_flag_clear(&reg_lock); return NULL; }
  size_t off = reg_used;
  reg_used += len + 4096;  // one inaccessible page between entries
  mprotect(reg_base + off, len, PROT_READ | PROT_WRITE);
  HENT* e = &ents[nent++];
  e->off = off; e->len = len; e->req = n; e->live = 1; strcpy(e->label, "other");
  atomic_flag_clear(&reg_lock);
  return reg_base + off;
}

static HENT* reg_find(const void* p)
{
  size_t off = (size_t) ((const uint8_t*) p - reg_base);
  for (int i = nent - 1; i >= 0; i--)
    if (off >= ents[i].off && off < ents[i].off + ents[i].len) return &ents[i];
  return NULL;
}

static void reg_free(void* p)
{
  HENT* e = reg_find(p);
  if (e && e->live) { e->live = 0; mprotect(reg_base + e->off, e->len, PROT_NONE); }
}

void* __wrap_malloc(size_t n) { return h_track ? reg_alloc(n) : __real_malloc(n); }
void* __wrap_calloc(size_t a, size_t b)
{
  if (!h_track) return __real_calloc(a, b);
  if (b != 0 && a > (size_t) -1 / b) return NULL;
  return reg_alloc(a * b);  // fresh anonymous pages are zero, entries are never reused
}
void __wrap_free(void* p)
{
  if (p == NULL) return;
  if (in_region(p)) reg_free(p); else __real_free(p);
}
void* __wrap_realloc(void* p, size_t n)
{
  if (p == NULL) return __wrap_malloc(n);
  if (in_region(p))
  {
    HENT* e = reg_find(p);
    void* q = reg_alloc(n);
    if (q == NULL) return NULL;
    if (e) memcpy(q, p, e->req < n ? e->req : n);
    reg_free(p);
    return q;
  }
  if (h_track)
  {
    void* q = reg_alloc(n);
    if (q == NULL) return NULL;
    size_t old = malloc_usable_size(p);
    memcpy(q, p, old < n ? old : n);
    __real_free(p);
    return q;
  }
  return __real_realloc(p, n);
}

// ---------------------------------------------------------------------------------------------- frame monitor
typedef struct { int ent; size_t off; int tid; } HVIOL;
#define MAXVIOL 512
static HVIOL viol[MAXVIOL];
static atomic_int nviol;
static __thread int h_tid = -1;

static void segv_handler(int sig, siginfo_t* si, void* uc)
{
  void* a = si->si_addr;
  if (in_region(a) && h_protected)
  {
    HENT* e = reg_find(a);
    if (e && e->live)
    {
      int k = atomic_fetch_add(&nviol, 1);
      if (k < MAXVIOL)
      {
        viol[k].ent = (int) (e - ents);
        viol[k].off = (size_t) ((uint8_t*) a - (reg_base + e->off));
        viol[k].tid = h_tid;
      }
      mprotect((void*) ((uintptr_t) a & ~(uintptr_t) 4095), 4096, PROT_READ | PROT_WRITE);
      return;
    }
  }
  signal(SIGSEGV, SIG_DFL);  // not ours: let it fault again and kill the case
}

static void set_protection(int on)
{
  for (int i = 0; i < nent; i++)
    if (ents[i].live) mprotect(reg_base + ents[i].off, ents[i].len, on ? PROT_READ : PROT_READ | PROT_WRITE);
  h_protected = on;
}

// ------------------------------------------------------------------------------------------------------ state
#define MAXBUF 64
#define MAXJOB 256
typedef struct { uint8_t* data; size_t len; char path[256]; } HBUF;
typedef struct { char name[48]; char type; char sval[96]; long long ival; double fval; } HEXT;
typedef struct
{
  int mode, buf, flags, timeout_s, reps, disable, trunc, nested;
  int park, parkn, release;   // park=<kind>: wait inside the first callback of that kind until the release threads have scanned
  long long tns;
  int next; HEXT ext[8];
  int abort_k, abort_act;
  int rdv;
  char moddata[64];
} HJOB;

typedef struct
{
  HJOB* job; int tid;
  char* trace; size_t tlen, tcap;
  int msg_index, rdv_done, parked, released, park_seen;
  long wall_min_ms, wall_max_ms;
  int obs_count, obs_inst, obs_tls;
  int rcs[16];
  char* first_trace; int same;
  char tpath[300];
} TCTX;

static YR_RULES* g_rules = NULL;
static HBUF bufs[MAXBUF]; static int nbufs = 0;
static HJOB jobs[MAXJOB]; static int njobs = 0;
static HEXT cexts[16]; static int ncexts = 0;
static int want_track = 1;
typedef struct { uint8_t* addr; size_t size; char name[64]; uint8_t* snap; } HWATCH;
#define MAXWATCH 4096
static HWATCH watch[MAXWATCH]; static int nwatch = 0;
static pthread_barrier_t start_bar, rdv_bar;
static int rdv_n = 0;
static sem_t sem_parked, sem_released;
static int n_park = 0, n_release = 0;
static struct sigaction orig_bus;
static FILE* g_out;

static void tappend(TCTX* c, const char* fmt, ...)
{
  va_list ap;
  char tmp[1024];
  va_start(ap, fmt);
  int n = vsnprintf(tmp, sizeof tmp, fmt, ap);
  va_end(ap);
  if (n < 0) return;
  if (n >= (int) sizeof tmp) n = sizeof tmp - 1;
  if (c->tlen + n + 1 > c->tcap)
  {
    c->tcap = (c->tlen + n + 1) * 2 + 256;
    c->trace = (char*) realloc(c->trace, c->tcap);
  }
  memcpy(c->trace + c->tlen, tmp, n);
  c->tlen += n;
  c->trace[c->tlen] = 0;
}

static int handler_installed(void)
{
  struct sigaction cur;
  sigaction(SIGBUS, NULL, &cur);
  return cur.sa_sigaction != orig_bus.sa_sigaction || ((cur.sa_flags ^ orig_bus.sa_flags) & SA_SIGINFO);
}

static void observe(TCTX* c)
{
  if (&exception_handler_mutex) pthread_mutex_lock(&exception_handler_mutex);
  c->obs_count = &exception_handler_usecount ? exception_handler_usecount : -999;
  c->obs_inst = handler_installed();
  if (&exception_handler_mutex) pthread_mutex_unlock(&exception_handler_mutex);
  c->obs_tls = &yr_trycatch_trampoline_tls ? (pthread_getspecific(yr_trycatch_trampoline_tls) != NULL) : -1;
}

static void rendezvous(TCTX* c)
{
  c->rdv_done = 1;
  pthread_barrier_wait(&rdv_bar);   // everybody has arrived: nobody moves
  observe(c);
  pthread_barrier_wait(&rdv_bar);   // everybody has looked
}

static int dummy_cb(YR_SCAN_CONTEXT* ctx, int msg, void* data, void* ud) { return CALLBACK_CONTINUE; }

// deterministic interleaving: thread A is held inside a callback, BEFORE it reads what the message points to, until
// every release thread has completed a whole scan; then A reads (copies) the message.  Without a release thread in
// the run (the solo reference) parking does nothing.
static void park_here(TCTX* c, int kind)
{
  if (c->job->park != kind) return;
  if (c->park_seen++ != c->job->parkn) return;     // the parkn-th message of that kind in this scan
  if (!c->parked && n_release > 0)
  {
    c->parked = 1;
    for (int i = 0; i < n_release; i++) sem_post(&sem_parked);
    for (int i = 0; i < n_release; i++) sem_wait(&sem_released);
  }
}

static void put_bytes(TCTX* c, const uint8_t* p, int n)
{
  for (int i = 0; i < n; i++) tappend(c, "%02x", p[i]);
}

static int scan_cb(YR_SCAN_CONTEXT* ctx, int msg, void* data, void* ud)
{
  TCTX* c = (TCTX*) ud;
  HJOB* j = c->job;
  int idx = c->msg_index++;
  switch (msg)
  {
  case CALLBACK_MSG_RULE_MATCHING:
  case CALLBACK_MSG_RULE_NOT_MATCHING:
  {
    YR_RULE* r = (YR_RULE*) data;
    park_here(c, 'M');
    tappend(c, "%c:%s:%s:", msg == CALLBACK_MSG_RULE_MATCHING ? 'M' : 'N', r->ns->name, r->identifier);
    if (msg == CALLBACK_MSG_RULE_MATCHING)
    {
      YR_STRING* str;
      YR_META* meta;
      const char* tag;
      yr_rule_tags_foreach(r, tag) { tappend(c, "t=%s,", tag); }
      yr_rule_metas_foreach(r, meta)
      {
        if (meta->type == META_TYPE_STRING) tappend(c, "m:%s=%s,", meta->identifier, meta->string);
        else tappend(c, "m:%s=%lld,", meta->identifier, (long long) meta->integer);
      }
      yr_rule_strings_foreach(r, str)
      {
        YR_MATCH* m;
        int n = 0;
        tappend(c, "%s=", str->identifier);
        yr_string_matches_foreach(ctx, str, m)
        {
          if (n++ < 6)
          {
            tappend(c, "%lld/%d/", (long long) (m->base + m->offset), m->match_length);
            put_bytes(c, m->data, m->data_length < 6 ? m->data_length : 6);   // the matched bytes (scanner's notebook)
            tappend(c, ",");
          }
        }
        tappend(c, "#%d|", n);
      }
    }
    tappend(c, ";");
    if (j->disable >= 0 && idx >= 0 && !c->rdv_done && j->disable == (int) (r - g_rules->rules_table))
    {
      // monitor self test: a callback that disables the rule it is told about writes the SHARED rule
      c->rdv_done = 1;
      yr_rule_disable(r);
      yr_rule_enable(r);
    }
    if (j->rdv == 'M' && !c->rdv_done) rendezvous(c);
    break;
  }
  case CALLBACK_MSG_SCAN_FINISHED:
    tappend(c, "F;");
    if (j->rdv == 'M' && !c->rdv_done) rendezvous(c);
    break;
  case CALLBACK_MSG_IMPORT_MODULE:
  {
    YR_MODULE_IMPORT* mi = (YR_MODULE_IMPORT*) data;
    park_here(c, 'I');
    tappend(c, "I:%s;", mi->module_name);
    if (j->moddata[0] && strcmp(mi->module_name, "tests") == 0)
    {
      mi->module_data = j->moddata;
      mi->module_data_size = strlen(j->moddata);
    }
    if (j->rdv == 'I' && !c->rdv_done) rendezvous(c);
    if (j->nested && !c->rdv_done)
    {
      c->rdv_done = 1;
      int rc = yr_rules_scan_mem(g_rules, (const uint8_t*) "nested", 6, 0, dummy_cb, NULL, 0);
      tappend(c, "nested=%d;", rc);
    }
    if (j->trunc && c->tpath[0])
    {
      int rc = truncate(c->tpath, 0);   // the mapping loses its pages: the next read of the file raises SIGBUS
      tappend(c, "trunc=%d;", rc);
    }
    break;
  }
  case CALLBACK_MSG_MODULE_IMPORTED:
    park_here(c, 'D');
    tappend(c, "D:%s;", ((YR_OBJECT*) data)->identifier);
    break;
  case CALLBACK_MSG_TOO_MANY_MATCHES:
    park_here(c, 'T');
    tappend(c, "T:%s:%s;", g_rules->rules_table[((YR_STRING*) data)->rule_idx].identifier, ((YR_STRING*) data)->identifier);
    break;
  case CALLBACK_MSG_CONSOLE_LOG:
    park_here(c, 'C');          // the text is read only now: it must still be this scanner's
    tappend(c, "C:%s;", (const char*) data);
    break;
  case CALLBACK_MSG_TOO_SLOW_SCANNING:
    park_here(c, 'S');
    tappend(c, "S:%s;", ((YR_STRING*) data)->identifier);
    break;
  default:
    tappend(c, "?%d;", msg);
  }
  if (j->abort_k == idx) return j->abort_act;
  return CALLBACK_CONTINUE;
}

static int define_exts(YR_SCANNER* s, HJOB* j, TCTX* c)
{
  for (int i = 0; i < j->next; i++)
  {
    HEXT* e = &j->ext[i];
    int rc;
    switch (e->type)
    {
    case 'i': rc = yr_scanner_define_integer_variable(s, e->name, e->ival); break;
    case 'b': rc = yr_scanner_define_boolean_variable(s, e->name, (int) e->ival); break;
    case 'f': rc = yr_scanner_define_float_variable(s, e->name, e->fval); break;
    default: rc = yr_scanner_define_string_variable(s, e->name, e->sval); break;
    }
    if (rc != ERROR_SUCCESS) tappend(c, "define(%s)=%d;", e->name, rc);
  }
  return 0;
}

static void private_copy(TCTX* c, HBUF* b)
{
  snprintf(c->tpath, sizeof c->tpath, "/dev/shm/h_thr.%d.%d.XXXXXX", (int) getpid(), c->tid);
  int fd = mkstemp(c->tpath);
  if (fd < 0) { c->tpath[0] = 0; return; }
  size_t w = 0;
  while (w < b->len) { ssize_t k = write(fd, b->data + w, b->len - w); if (k <= 0) break; w += (size_t) k; }
  close(fd);
}

static const char* buf_path(HBUF* b)
{
  if (!b->path[0])
  {
    snprintf(b->path, sizeof b->path, "/dev/shm/h_thr.%d.b.XXXXXX", (int) getpid());
    int fd = mkstemp(b->path);
    size_t w = 0;
    while (fd >= 0 && w < b->len) { ssize_t k = write(fd, b->data + w, b->len - w); if (k <= 0) break; w += (size_t) k; }
    if (fd >= 0) close(fd);
  }
  return b->path;
}

static int one_scan(TCTX* c)
{
  HJOB* j = c->job;
  HBUF* b = &bufs[j->buf];
  int rc = -1;
  const char* path = NULL;
  c->msg_index = 0;
  c->park_seen = 0;
  c->tpath[0] = 0;
  if (j->mode >= 2)
  {
    if (j->trunc) { private_copy(c, b); path = c->tpath; }
    else path = b->path;
  }
  if (j->mode == 1)
    rc = yr_rules_scan_mem(g_rules, b->data, b->len, j->flags, scan_cb, c, j->timeout_s);
  else if (j->mode == 3)
    rc = yr_rules_scan_file(g_rules, path, j->flags, scan_cb, c, j->timeout_s);
  else
  {
    YR_SCANNER* s = NULL;
    rc = yr_scanner_create(g_rules, &s);
    if (rc != ERROR_SUCCESS) { tappend(c, "create=%d;", rc); return rc; }
    yr_scanner_set_callback(s, scan_cb, c);
    yr_scanner_set_flags(s, j->flags);
    yr_scanner_set_timeout(s, j->timeout_s);
    if (j->tns > 0) s->timeout = (uint64_t) j->tns;
    define_exts(s, j, c);
    if (j->mode == 0) rc = yr_scanner_scan_mem(s, b->data, b->len);
    else if (j->mode == 2) rc = yr_scanner_scan_file(s, path);
    else
    {
      int fd = open(path, O_RDONLY);
      rc = fd >= 0 ? yr_scanner_scan_fd(s, fd) : -2;
      if (fd >= 0) close(fd);
    }
    yr_scanner_destroy(s);
  }
  if (c->tpath[0]) unlink(c->tpath);
  return rc;
}

static void* thread_main(void* arg)
{
  TCTX* c = (TCTX*) arg;
  HJOB* j = c->job;
  h_tid = c->tid;
  c->same = 1;
  pthread_barrier_wait(&start_bar);
  if (j->rdv == 'B') rendezvous(c);
  for (int r = 0; r < j->reps; r++)
  {
    c->tlen = 0;
    if (c->trace) c->trace[0] = 0;
    if (j->release && !c->released && n_park > 0)
      for (int i = 0; i < n_park; i++) sem_wait(&sem_parked);       // every parking thread sits in its callback
    struct timespec t0, t1;
    clock_gettime(CLOCK_MONOTONIC, &t0);
    int rc = one_scan(c);
    clock_gettime(CLOCK_MONOTONIC, &t1);
    long ms = (long) ((t1.tv_sec - t0.tv_sec) * 1000 + (t1.tv_nsec - t0.tv_nsec) / 1000000);
    if (r == 0 || ms < c->wall_min_ms) c->wall_min_ms = ms;
    if (r == 0 || ms > c->wall_max_ms) c->wall_max_ms = ms;
    if (j->park && !c->parked && n_release > 0)
    {
      // the message to park at never came: let the release threads go, and say so
      c->parked = 1;
      for (int i = 0; i < n_release; i++) sem_post(&sem_parked);
      tappend(c, "never-parked;");
    }
    if (j->release && !c->released && n_park > 0)
    {
      c->released = 1;
      for (int i = 0; i < n_park; i++) sem_post(&sem_released);
    }
    if (r < 16) c->rcs[r] = rc;
    tappend(c, " rc=%d", rc);
    if (r == 0) c->first_trace = strdup(c->trace ? c->trace : "");
    else if (strcmp(c->first_trace, c->trace ? c->trace : "") != 0)
    {
      if (c->same) { c->same = 0; char* both = (char*) malloc(strlen(c->first_trace) + c->tlen + 32);
        sprintf(both, "%s  ||rep%d|| %s", c->first_trace, r, c->trace); free(c->first_trace); c->first_trace = both; }
    }
  }
  return NULL;
}

// sampler: consistent snapshots of (counter, disposition) under the mutex
static atomic_int sampler_stop;
static long s_samples = 0, s_bad = 0; static int s_max = 0, s_min = 0; static int s_n = 0;
static void* sampler_main(void* arg)
{
  while (!atomic_load(&sampler_stop))
  {
    if (&exception_handler_mutex && &exception_handler_usecount)
    {
      pthread_mutex_lock(&exception_handler_mutex);
      int cnt = exception_handler_usecount;
      int inst = handler_installed();
      pthread_mutex_unlock(&exception_handler_mutex);
      s_samples++;
      if (cnt > s_max) s_max = cnt;
      if (cnt < s_min) s_min = cnt;
      if (inst != (cnt > 0) || cnt < 0 || cnt > s_n) s_bad++;
    }
    usleep(20);
  }
  return NULL;
}

static void label_entries(void)
{
  if (!g_rules || !reg_base) return;
  for (int i = 0; i < nent; i++)
  {
    void* p = reg_base + ents[i].off;
    if (p == (void*) g_rules) strcpy(ents[i].label, "YR_RULES");
    else if (p == (void*) g_rules->no_required_strings) strcpy(ents[i].label, "no_required_strings");
    else if (p == (void*) g_rules->arena) strcpy(ents[i].label, "YR_ARENA");
    else
      for (uint32_t b = 0; b < g_rules->arena->num_buffers; b++)
        if (p == (void*) g_rules->arena->buffers[b].data) snprintf(ents[i].label, sizeof ents[i].label, "buf%u", b);
  }
}

static void do_rules(const char* hexsrc, FILE* out)
{
  size_t n;
  uint8_t* src = h_unhex(hexsrc, &n);
  YR_COMPILER* comp = NULL;
  YR_RULES* r0 = NULL;
  if (yr_compiler_create(&comp) != ERROR_SUCCESS) { fprintf(out, "rules rc=compiler\n"); return; }
  for (int i = 0; i < ncexts; i++)
  {
    HEXT* e = &cexts[i];
    if (e->type == 'i') yr_compiler_define_integer_variable(comp, e->name, e->ival);
    else if (e->type == 'b') yr_compiler_define_boolean_variable(comp, e->name, (int) e->ival);
    else if (e->type == 'f') yr_compiler_define_float_variable(comp, e->name, e->fval);
    else yr_compiler_define_string_variable(comp, e->name, e->sval);
  }
  int errs = yr_compiler_add_string(comp, (const char*) src, NULL);
  if (errs != 0) { fprintf(out, "rules rc=errors:%d\n", errs); yr_compiler_destroy(comp); return; }
  if (yr_compiler_get_rules(comp, &r0) != ERROR_SUCCESS) { fprintf(out, "rules rc=getrules\n"); return; }
  HMEM m; memset(&m, 0, sizeof m);
  YR_STREAM st; st.user_data = &m; st.write = hmem_write; st.read = hmem_read;
  int rc = yr_rules_save_stream(r0, &st);
  yr_rules_destroy(r0);
  yr_compiler_destroy(comp);
  if (rc != ERROR_SUCCESS) { fprintf(out, "rules rc=save:%d\n", rc); return; }
  m.pos = 0;
  h_track = want_track;
  rc = yr_rules_load_stream(&st, &g_rules);
  h_track = 0;
  if (rc != ERROR_SUCCESS) { fprintf(out, "rules rc=load:%d\n", rc); g_rules = NULL; return; }
  label_entries();
  fprintf(out, "rules rc=0 image=%zu entries=%d tracked=%d nrules=%u nstrings=%u\n", m.len, nent, want_track,
          g_rules->num_rules, g_rules->num_strings);
  free(m.data);
  free(src);
}

static void parse_ext(HEXT* e, char type, const char* name, const char* val)
{
  memset(e, 0, sizeof *e);
  e->type = type;
  snprintf(e->name, sizeof e->name, "%s", name);
  if (type == 'i' || type == 'b') e->ival = strtoll(val, NULL, 0);
  else if (type == 'f') e->fval = strtod(val, NULL);
  else snprintf(e->sval, sizeof e->sval, "%s", val);
}

static void do_job(char* args)
{
  HJOB* j = &jobs[njobs++];
  memset(j, 0, sizeof *j);
  j->reps = 1; j->disable = -1; j->abort_k = -1;
  for (char* tok = strtok(args, " "); tok; tok = strtok(NULL, " "))
  {
    char* eq = strchr(tok, '=');
    if (!eq) continue;
    *eq = 0;
    char* v = eq + 1;
    if (!strcmp(tok, "mode"))
      j->mode = !strcmp(v, "scanner") ? 0 : !strcmp(v, "rules") ? 1 : !strcmp(v, "file") ? 2 : !strcmp(v, "rfile") ? 3 : 4;
    else if (!strcmp(tok, "buf")) j->buf = atoi(v);
    else if (!strcmp(tok, "flags")) j->flags = atoi(v);
    else if (!strcmp(tok, "timeout")) j->timeout_s = atoi(v);
    else if (!strcmp(tok, "tns")) j->tns = atoll(v);
    else if (!strcmp(tok, "reps")) j->reps = atoi(v);
    else if (!strcmp(tok, "disable")) j->disable = atoi(v);
    else if (!strcmp(tok, "trunc")) j->trunc = atoi(v);
    else if (!strcmp(tok, "nested")) j->nested = atoi(v);
    else if (!strcmp(tok, "park")) j->park = v[0];
    else if (!strcmp(tok, "parkn")) j->parkn = atoi(v);
    else if (!strcmp(tok, "release")) j->release = atoi(v);
    else if (!strcmp(tok, "rdv")) j->rdv = v[0];
    else if (!strcmp(tok, "moddata")) snprintf(j->moddata, sizeof j->moddata, "%s", v);
    else if (!strcmp(tok, "abort")) { j->abort_k = atoi(v); char* c = strchr(v, ':'); j->abort_act = c ? atoi(c + 1) : 1; }
    else if (!strcmp(tok, "ext") && j->next < 8)
    {
      char* c1 = strchr(v, ':');
      if (c1) { *c1 = 0; char* c2 = strchr(c1 + 1, ':'); if (c2) { *c2 = 0; parse_ext(&j->ext[j->next++], c1[1], v, c2 + 1); } }
    }
  }
}

static void do_run(char* args, FILE* out)
{
  int protect = 0, n = 0;
  int idx[64];
  char* tok = strtok(args, " ");
  if (tok) { protect = atoi(tok); tok = strtok(NULL, " "); }
  for (; tok && n < 64; tok = strtok(NULL, " ")) idx[n++] = atoi(tok);
  if (!g_rules || n == 0) { fprintf(out, "run rc=nothing\n"); return; }
  TCTX* ctx = (TCTX*) calloc(n, sizeof(TCTX));
  pthread_t th[64], sampler;
  rdv_n = 0; n_park = 0; n_release = 0;
  sem_init(&sem_parked, 0, 0); sem_init(&sem_released, 0, 0);
  for (int i = 0; i < n; i++)
  {
    ctx[i].job = &jobs[idx[i]]; ctx[i].tid = i; ctx[i].obs_count = -1; ctx[i].obs_inst = -1; ctx[i].obs_tls = -1;
    if (jobs[idx[i]].rdv) rdv_n++;
    if (jobs[idx[i]].park) n_park++;
    if (jobs[idx[i]].release) n_release++;
    if (jobs[idx[i]].mode >= 2 && !jobs[idx[i]].trunc) buf_path(&bufs[jobs[idx[i]].buf]);
  }
  pthread_barrier_init(&start_bar, NULL, n);
  if (rdv_n) pthread_barrier_init(&rdv_bar, NULL, rdv_n);
  atomic_store(&nviol, 0);
  int c0 = &exception_handler_usecount ? exception_handler_usecount : -999, i0 = handler_installed();
  s_samples = s_bad = 0; s_max = 0; s_min = 0; s_n = n; atomic_store(&sampler_stop, 0);
  for (int i = 0; i < nwatch; i++) memcpy(watch[i].snap, watch[i].addr, watch[i].size);
  if (protect) set_protection(1);
  pthread_create(&sampler, NULL, sampler_main, NULL);
  for (int i = 0; i < n; i++) pthread_create(&th[i], NULL, thread_main, &ctx[i]);
  for (int i = 0; i < n; i++) pthread_join(th[i], NULL);
  atomic_store(&sampler_stop, 1);
  pthread_join(sampler, NULL);
  if (protect) set_protection(0);
  int c1 = &exception_handler_usecount ? exception_handler_usecount : -999, i1 = handler_installed();
  fprintf(out, "run n=%d protect=%d\n", n, protect);
  for (int i = 0; i < n; i++)
  {
    fprintf(out, "T %d job=%d reps=%d same=%d obs=%d/%d/%d wall=%ld/%ld trace=%s\n", i, idx[i], ctx[i].job->reps, ctx[i].same,
            ctx[i].obs_count, ctx[i].obs_inst, ctx[i].obs_tls, ctx[i].wall_min_ms, ctx[i].wall_max_ms, ctx[i].first_trace ? ctx[i].first_trace : "");
  }
  int nv = atomic_load(&nviol);
  for (int k = 0; k < nv && k < MAXVIOL; k++)
    fprintf(out, "W ent=%s off=%zu tid=%d\n", ents[viol[k].ent].label, viol[k].off, viol[k].tid);
  for (int i = 0; i < nwatch; i++)
    if (memcmp(watch[i].snap, watch[i].addr, watch[i].size) != 0)
    {
      size_t o = 0;
      while (o < watch[i].size && watch[i].snap[o] == watch[i].addr[o]) o++;
      fprintf(out, "G name=%s off=%zu size=%zu\n", watch[i].name, o, watch[i].size);
    }
  fprintf(out, "H start=%d/%d end=%d/%d samples=%ld bad=%ld max=%d min=%d symbols=%d\n", c0, i0, c1, i1, s_samples, s_bad,
          s_max, s_min, (&exception_handler_usecount != NULL) + 2 * (&exception_handler_mutex != NULL) + 4 * (&yr_trycatch_trampoline_tls != NULL));
  fprintf(out, "endrun\n");
  fflush(out);
  pthread_barrier_destroy(&start_bar);
  if (rdv_n) pthread_barrier_destroy(&rdv_bar);
  free(ctx);
}

typedef struct { char** lines; int n; } HCASE;

static void run_case(void* arg, FILE* out)
{
  HCASE* hc = (HCASE*) arg;
  g_out = out;
  struct sigaction sa;
  memset(&sa, 0, sizeof sa);
  sa.sa_sigaction = segv_handler;
  sa.sa_flags = SA_SIGINFO | SA_NODEFER;
  sigemptyset(&sa.sa_mask);
  sigaction(SIGSEGV, &sa, NULL);
  sigaction(SIGBUS, NULL, &orig_bus);
  if (yr_initialize() != ERROR_SUCCESS) { fprintf(out, "init failed\n"); return; }
  for (int i = 0; i < hc->n; i++)
  {
    char* l = hc->lines[i];
    if (!strncmp(l, "ext ", 4))
    {
      char t; char name[64], val[128];
      if (sscanf(l + 4, "%c %63s %127s", &t, name, val) == 3 && ncexts < 16) parse_ext(&cexts[ncexts++], t, name, val);
    }
    else if (!strncmp(l, "track ", 6)) want_track = atoi(l + 6);
    else if (!strncmp(l, "watch ", 6))
    {
      unsigned long long a; unsigned long sz; char name[64];
      if (sscanf(l + 6, "%llx %lu %63s", &a, &sz, name) == 3 && nwatch < MAXWATCH && sz > 0 && sz <= (1u << 20))
      {
        HWATCH* w = &watch[nwatch++];
        w->addr = (uint8_t*) (uintptr_t) a; w->size = sz; snprintf(w->name, sizeof w->name, "%s", name);
        w->snap = (uint8_t*) malloc(sz);
      }
    }
    else if (!strncmp(l, "rules ", 6)) do_rules(l + 6, out);
    else if (!strncmp(l, "buf ", 4)) { HBUF* b = &bufs[nbufs++]; memset(b, 0, sizeof *b); b->data = h_unhex(l + 4, &b->len); }
    else if (!strncmp(l, "buffile ", 8))
    {
      HBUF* b = &bufs[nbufs++]; memset(b, 0, sizeof *b);
      snprintf(b->path, sizeof b->path, "%s", l + 8);
      FILE* f = fopen(b->path, "rb");
      if (f)
      {
        fseek(f, 0, SEEK_END); long sz = ftell(f); fseek(f, 0, SEEK_SET);
        b->data = (uint8_t*) malloc(sz + 1); b->len = fread(b->data, 1, sz, f); fclose(f);
      }
      else fprintf(out, "buffile missing %s\n", b->path);
    }
    else if (!strncmp(l, "job ", 4)) do_job(l + 4);
    else if (!strncmp(l, "run ", 4)) do_run(l + 4, out);
  }
  for (int i = 0; i < nbufs; i++) if (bufs[i].path[0] && strstr(bufs[i].path, "/dev/shm/h_thr.")) unlink(bufs[i].path);
  if (g_rules) { yr_rules_destroy(g_rules); g_rules = NULL; }
  yr_finalize();
  struct sigaction fin; sigaction(SIGBUS, NULL, &fin);
  fprintf(out, "finalized handler_restored=%d\n", fin.sa_sigaction == orig_bus.sa_sigaction);
}

int main(int argc, char** argv)
{
  int tmo = argc > 1 ? atoi(argv[1]) : 120;
  char* line;
  HCASE hc; hc.lines = NULL; hc.n = 0;
  char* id = NULL;
  int cap = 0;
  while ((line = h_readline(stdin)) != NULL)
  {
    if (!strncmp(line, "case ", 5)) { id = strdup(line + 5); hc.n = 0; free(line); continue; }
    if (!strcmp(line, "endcase"))
    {
      printf("case %s\n", id ? id : "?");
      h_in_child(run_case, &hc, tmo);
      printf("endcase %s\n", id ? id : "?");
      fflush(stdout);
      for (int i = 0; i < hc.n; i++) free(hc.lines[i]);
      hc.n = 0; free(id); id = NULL; free(line);
      continue;
    }
    if (hc.n >= cap) { cap = cap * 2 + 64; hc.lines = (char**) realloc(hc.lines, cap * sizeof(char*)); }
    hc.lines[hc.n++] = line;
  }
  return 0;
}
