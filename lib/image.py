"""Python-side view of a saved rules image (layout constants from gen/GenConsts.v)."""
import vlib


class Image:
    def __init__(self, data):
        self.K = vlib.consts()
        self.data = data
        nb = data[5]
        self.nb = nb
        pos = 6 + 12 * nb
        self.bufs = []
        for i in range(nb):
            sz = int.from_bytes(data[6 + 12 * i + 8:6 + 12 * i + 12], "little")
            self.bufs.append(data[pos:pos + sz])
            pos += sz
        self.reloc_start = pos
        rel = data[pos:]
        self.relocs = [(int.from_bytes(rel[i:i + 4], "little"), int.from_bytes(rel[i + 4:i + 8], "little"))
                       for i in range(0, len(rel) - 7, 8)]

    def i(self, buf, off, n, signed=False):
        return int.from_bytes(self.bufs[buf][off:off + n], "little", signed=signed)

    def cstr(self, ref):
        b, o = ref
        if b == 0xFFFFFFFF:
            return None
        d = self.bufs[b]
        e = d.index(b"\0", o)
        return d[o:e]

    def ref(self, buf, off):
        return (self.i(buf, off, 4), self.i(buf, off + 4, 4))

    def strings(self):
        K = self.K
        T = K["YR_STRINGS_TABLE"]
        n = len(self.bufs[T]) // K["sizeof_YR_STRING"]
        out = []
        for k in range(n):
            o = k * K["sizeof_YR_STRING"]
            out.append({
                "flags": self.i(T, o + K["off_YR_STRING_flags"], 4),
                "idx": self.i(T, o + K["off_YR_STRING_idx"], 4),
                "fixed_offset": self.i(T, o + K["off_YR_STRING_fixed_offset"], 8, True),
                "rule_idx": self.i(T, o + K["off_YR_STRING_rule_idx"], 4),
                "length": self.i(T, o + K["off_YR_STRING_length"], 4, True),
                "string": self.ref(T, o + K["off_YR_STRING_string"]),
                "chained_to": self.ref(T, o + K["off_YR_STRING_chained_to"]),
                "gap_min": self.i(T, o + K["off_YR_STRING_chain_gap_min"], 4, True),
                "gap_max": self.i(T, o + K["off_YR_STRING_chain_gap_max"], 4, True),
                "identifier": self.cstr(self.ref(T, o + K["off_YR_STRING_identifier"])),
            })
        return out

    def rules(self):
        K = self.K
        T = K["YR_RULES_TABLE"]
        n = len(self.bufs[T]) // K["sizeof_YR_RULE"]
        out = []
        for k in range(n):
            o = k * K["sizeof_YR_RULE"]
            out.append({
                "flags": self.i(T, o + K["off_YR_RULE_flags"], 4),
                "num_atoms": self.i(T, o + K["off_YR_RULE_num_atoms"], 4),
                "required_strings": self.i(T, o + K["off_YR_RULE_required_strings"], 4),
                "identifier": self.cstr(self.ref(T, o + K["off_YR_RULE_identifier"])),
            })
        return out
