"""GenOutput.v: the lock discipline of the output path of cli/yara.c, translated on every run.

The code a scanning thread runs (the function handed to cli_create_thread, the callback registered with
yr_scanner_set_callback and every function of cli/yara.c reachable from them) is translated to an `ostmt`
over coq/Model/QueueOutput.v: control flow is kept, statements are reduced to events
  lock / unlock of the output mutex, one EOut per stdio call (stream, site), one EVar per access to a
  file-scope variable.
Every call must be classified: a function defined in cli/yara.c (inlined), a stdio function, a known
printer of libyara, a scanner entry point (= any number of callback invocations), or a listed function
that neither prints nor locks.  Anything else raises GenError("translator cannot parse ...").
"""
import os, re
import gen
from gen import GenError
import build

ID = r"[A-Za-z_][A-Za-z0-9_]*"
KEYWORDS = {"if", "else", "for", "while", "do", "switch", "case", "default", "return", "break", "continue", "goto",
            "sizeof", "int", "char", "bool", "long", "unsigned", "signed", "short", "void", "const", "static", "struct",
            "union", "enum", "float", "double", "volatile", "register", "extern", "typedef", "true", "false", "NULL"}
STDOUT_FUNCS = {"_tprintf", "printf", "puts", "putchar", "_putts", "wprintf", "vprintf", "_putchar", "putwchar"}
STREAM_FUNCS = {"fprintf", "_ftprintf", "fputs", "fputc", "putc", "fwrite", "vfprintf", "_fputts", "fflush", "fputwc"}
# libyara functions that print to stdout themselves (any number of stdio calls)
EXTERN_PRINTERS = {"yr_object_print_data": "Stdout", "yr_scanner_print_profiling_info": "Stdout",
                   "yr_rules_print_profiling_info": "Stdout"}
# entry points of the scanner: the registered callback is invoked any number of times, in the calling thread
SCANNER_ENTRIES = {"yr_scanner_scan_fd", "yr_scanner_scan_file", "yr_scanner_scan_mem", "yr_scanner_scan_proc",
                   "yr_scanner_scan_mem_blocks"}
# neither print nor touch output_mutex (libc / libyara accessors / macros); file_queue_get is the queue
# protocol (its own mutex; Proofs/QueueProofs.v)
QUIET = {"strcmp", "strlen", "strchr", "strncmp", "memcmp", "time", "free", "min", "max", "STRING_IS_HEX", "_T",
         "yr_scanner_last_error_rule", "yr_scanner_last_error_string", "yr_scanner_set_timeout", "open", "close",
         "file_queue_get", "_tcsdup", "_tcslen", "_tcscmp", "IS_UNDEFINED", "STRING_IS_NULL", "RULE_IS_NULL",
         "META_IS_LAST_IN_RULE", "EOL"}
LOOP_MACROS = re.compile(r"^(yr_\w+_foreach)\s*\(")
ASSIGN = re.compile(r"^\s*(?:\[[^\]]*\]\s*)*(=(?!=)|\+=|-=|\*=|/=|%=|&=|\|=|\^=|<<=|>>=|\+\+|--)")


def _src():
    p = os.path.join(build.REPO, "cli", "yara.c")
    if not os.path.exists(p):
        raise GenError("translator cannot find cli/yara.c")
    return open(p, encoding="latin-1").read()


def strip_comments_and_literals(txt):
    """Comments removed; string and character literals replaced by "" / ' ' (their text never matters here and
    may contain parentheses, braces and semicolons)."""
    out = []
    i, n = 0, len(txt)
    while i < n:
        if txt.startswith("//", i):
            while i < n and txt[i] != "\n":
                i += 1
        elif txt.startswith("/*", i):
            j = txt.find("*/", i)
            if j < 0:
                raise GenError("translator cannot parse cli/yara.c: unterminated comment")
            out.append("\n" * txt.count("\n", i, j))
            i = j + 2
        elif txt[i] == '"' or txt[i] == "'":
            q = txt[i]
            j = i + 1
            while j < n and txt[j] != q:
                if txt[j] == "\\":
                    j += 1
                j += 1
            out.append('""' if q == '"' else "' '")
            i = j + 1
        else:
            out.append(txt[i])
            i += 1
    return "".join(out)


def preprocess(txt):
    """Resolve the Windows conditionals (POSIX side kept).  Every other preprocessor line is kept as a bare '#'
    line: ignored at file scope, an error inside a translated function."""
    out = []
    stack = []   # entries: [is_windows_conditional, keep_now]
    for line in txt.split("\n"):
        s = line.strip()
        keep = all(k[1] for k in stack if k[0])
        if s.startswith("#"):
            d = re.sub(r"\s+", " ", re.sub(r"^#\s*", "#", s))
            if d.startswith("#if"):
                if re.match(r"^#if defined\(_WIN32\)( \|\| defined\(__CYGWIN__\))?( && defined\(_UNICODE\))?$", d) or \
                        d in ("#ifdef _WIN32", "#ifdef _MSC_VER", "#if defined(_MSC_VER)", "#if defined(_UNICODE)", "#ifdef _UNICODE"):
                    stack.append([True, False])
                elif re.match(r"^#if !defined\(_WIN32\)( && !defined\(__CYGWIN__\))?$", d):
                    stack.append([True, True])
                else:
                    stack.append([False, True])
                    out.append("#" if keep else "")
                    continue
                out.append("")
                continue
            if d.startswith("#el"):
                if stack and stack[-1][0]:
                    if d != "#else":
                        raise GenError("translator cannot parse cli/yara.c: '%s' in a Windows conditional" % d)
                    stack[-1][1] = not stack[-1][1]
                    out.append("")
                    continue
            elif d.startswith("#endif"):
                if not stack:
                    raise GenError("translator cannot parse cli/yara.c: unbalanced #endif")
                if stack.pop()[0]:
                    out.append("")
                    continue
            out.append("#" if keep else "")
            continue
        out.append(line if keep else "")
    if stack:
        raise GenError("translator cannot parse cli/yara.c: unbalanced #if")
    return "\n".join(out)


def drop_defines(raw):
    """Blank out #define lines together with their continuation lines (before literals are replaced)."""
    out, cont = [], False
    for line in raw.split("\n"):
        if cont or re.match(r"\s*#\s*define\b", line):
            cont = line.rstrip().endswith("\\")
            out.append("")
        else:
            out.append(line)
    return "\n".join(out)


def match(txt, i, o, c):
    d = 0
    n = len(txt)
    while i < n:
        if txt[i] == o:
            d += 1
        elif txt[i] == c:
            d -= 1
            if d == 0:
                return i + 1
        i += 1
    raise GenError("translator cannot parse cli/yara.c: unbalanced %s%s" % (o, c))


def top_level(txt):
    """-> (functions {name: (params, body)}, file-scope variable names)."""
    funcs, gvars = {}, []
    i, n = 0, len(txt)
    start = 0
    while i < n:
        ch = txt[i]
        if ch == "#":
            j = txt.find("\n", i)
            j = n if j < 0 else j
            i = start = j + 1
            continue
        if ch == "(":
            i = match(txt, i, "(", ")")
            continue
        if ch == "[":
            i = match(txt, i, "[", "]")
            continue
        if ch == "{":
            j = match(txt, i, "{", "}")
            head = txt[start:i].strip()
            m = re.search(r"(%s)\s*\(" % ID, head)
            if m and head.endswith(")") and "=" not in head and not re.match(r"^(typedef|struct|union|enum)\b", head):
                # function definition
                name = m.group(1)
                p0 = head.index("(", m.start())
                params = head[p0 + 1:match(head, p0, "(", ")") - 1]
                if name in funcs:
                    raise GenError("translator cannot parse cli/yara.c: two definitions of %s on the POSIX side" % name)
                funcs[name] = (params, txt[i + 1:j - 1])
                i = start = j
                continue
            i = j   # initializer / struct body: the item continues until ';'
            continue
        if ch == ";":
            item = re.sub(r"\s+", " ", txt[start:i]).strip()
            i += 1
            start = i
            if not item or re.match(r"^(typedef|extern)\b", item) or re.match(r"^(struct|union|enum)\b[^=]*\}?$", item) and "{" in item and not re.search(r"\}\s*%s" % ID, item):
                continue
            decl = item
            # cut initializer
            d = 0
            for k, c2 in enumerate(decl):
                if c2 in "({[":
                    d += 1
                elif c2 in ")}]":
                    d -= 1
                elif c2 == "=" and d == 0:
                    decl = decl[:k]
                    break
            decl = decl.strip()
            if decl.endswith(")"):
                continue   # prototype
            decl = re.sub(r"\[[^\]]*\]", "", decl).strip()
            decl = re.sub(r"\{.*\}", "", decl).strip()
            m = re.search(r"(%s)$" % ID, decl)
            if not m or m.group(1) in KEYWORDS:
                raise GenError("translator cannot parse file-scope declaration '%s' in cli/yara.c" % item[:80])
            gvars.append(m.group(1))
            continue
        i += 1
    return funcs, gvars


# ---------------------------------------------------------------- statements
def parse_block(txt, fn):
    """-> list of statements:
       ('s', text) ('if', cond, then, else|None) ('loop', header_text, body) ('switch', expr, [(labels, stmts)])
       ('return', text) ('break',) ('continue',)"""
    out = []
    i, n = 0, len(txt)

    def skipws(i):
        while i < n and txt[i].isspace():
            i += 1
        return i

    def one(i):
        i = skipws(i)
        if i >= n:
            return None, i
        if txt[i] == "#":
            raise GenError("translator cannot parse %s: preprocessor conditional inside the function" % fn)
        m = re.match(r"(if|for|while|switch)\s*\(", txt[i:])
        lm = LOOP_MACROS.match(txt[i:])
        if m or lm:
            kw = m.group(1) if m else "foreach"
            p0 = i + (m.end() if m else lm.end()) - 1
            j = match(txt, p0, "(", ")")
            head = re.sub(r"\s+", " ", txt[p0 + 1:j - 1]).strip()
            if kw == "switch":
                j = skipws(j)
                if txt[j] != "{":
                    raise GenError("translator cannot parse %s: switch without block" % fn)
                e = match(txt, j, "{", "}")
                return ("switch", head, parse_cases(txt[j + 1:e - 1], fn)), e
            body, j = one(j)
            if body is None:
                raise GenError("translator cannot parse %s: %s without body" % (fn, kw))
            body = body[1] if body[0] == "block" else [body]
            if kw == "if":
                m2 = re.match(r"\s*else\b", txt[j:])
                els = None
                if m2:
                    e, j = one(j + m2.end())
                    if e is None:
                        raise GenError("translator cannot parse %s: else without body" % fn)
                    els = e[1] if e[0] == "block" else [e]
                return ("if", head, body, els), j
            return ("loop", head, body), j
        if re.match(r"(do|goto)\b", txt[i:]):
            raise GenError("translator cannot parse %s: do/goto statement" % fn)
        if txt[i] == "{":
            j = match(txt, i, "{", "}")
            return ("block", parse_block(txt[i + 1:j - 1], fn)), j
        # simple statement up to ';' at depth 0
        j, d = i, 0
        while j < n:
            c = txt[j]
            if c in "([{":
                d += 1
            elif c in ")]}":
                d -= 1
            elif c == ";" and d == 0:
                break
            j += 1
        if j >= n:
            raise GenError("translator cannot parse %s: statement without ';': %r" % (fn, txt[i:i + 60]))
        s = re.sub(r"\s+", " ", txt[i:j]).strip()
        if s == "break":
            return ("break",), j + 1
        if s == "continue":
            return ("continue",), j + 1
        if re.match(r"^return\b", s):
            return ("return", s[6:].strip()), j + 1
        return ("s", s), j + 1

    def parse_cases(body, fn):
        groups = []
        labels, stmts = [], []
        k, m = 0, len(body)
        sub = body
        pos = 0
        while True:
            while pos < len(sub) and sub[pos].isspace():
                pos += 1
            if pos >= len(sub):
                break
            lm = re.match(r"(case\s+([A-Za-z_0-9]+|' ')|default)\s*:", sub[pos:])
            if lm:
                if stmts:
                    groups.append((labels, stmts))
                    labels, stmts = [], []
                labels.append("default" if lm.group(2) is None else "chr" if lm.group(2) == "' '" else lm.group(2))
                pos += lm.end()
                continue
            if not labels:
                raise GenError("translator cannot parse %s: statement before the first case label" % fn)
            # parse one statement of `sub` starting at pos using a fresh parser on the remainder
            rest = sub[pos:]
            st, used = parse_one(rest, fn)
            stmts.append(st)
            pos += used
        if labels:
            groups.append((labels, stmts))
        for gi, (ls, ss) in enumerate(groups[:-1]):
            if not ss or ss[-1][0] not in ("return", "break", "continue"):
                raise GenError("translator cannot parse %s: case %s falls through into the next one" % (fn, "/".join(ls)))
        return groups

    while True:
        s, i = one(i)
        if s is None:
            break
        if s[0] == "block":
            out.extend(s[1])
        else:
            out.append(s)
    return out


def parse_one(txt, fn):
    """Parse exactly one statement at the start of txt; returns (stmt, chars consumed)."""
    # find the extent of the first statement by trying growing prefixes is expensive; instead reuse parse_block's
    # machinery through a sentinel: parse the whole text and take the first statement, measuring its extent.
    extent = statement_extent(txt, fn)
    sts = parse_block(txt[:extent], fn)
    if len(sts) == 1:
        return sts[0], extent
    return ("seq", sts), extent


def statement_extent(txt, fn):
    i, n = 0, len(txt)
    while i < n and txt[i].isspace():
        i += 1
    m = re.match(r"(if|for|while|switch)\s*\(", txt[i:])
    lm = LOOP_MACROS.match(txt[i:])
    if m or lm:
        p0 = i + (m.end() if m else lm.end()) - 1
        j = match(txt, p0, "(", ")")
        j += statement_extent(txt[j:], fn)
        if m and m.group(1) == "if":
            m2 = re.match(r"\s*else\b", txt[j:])
            if m2:
                j += m2.end()
                j += statement_extent(txt[j:], fn)
        return j
    if i < n and txt[i] == "{":
        return match(txt, i, "{", "}")
    d = 0
    j = i
    while j < n:
        c = txt[j]
        if c in "([{":
            d += 1
        elif c in ")]}":
            d -= 1
        elif c == ";" and d == 0:
            return j + 1
        j += 1
    raise GenError("translator cannot parse %s: statement without ';'" % fn)


# ---------------------------------------------------------------- translation
class Ctx:
    def __init__(self, funcs, gvars, outmutex, qmutex, callback):
        self.funcs, self.gvars, self.outmutex, self.qmutex, self.callback = funcs, set(gvars), outmutex, qmutex, callback
        self.stack = []
        self.sites = {}          # site -> set of streams written
        self.inlined = set()


def local_names(params, body):
    """Names declared as parameters or locals (approximation: identifiers following a type-like token sequence)."""
    names = set()
    for p in params.split(","):
        m = re.search(r"(%s)\s*(\[[^\]]*\])?\s*$" % ID, p.strip())
        if m:
            names.add(m.group(1))
    for m in re.finditer(r"(?:^|[;{(])\s*(?:const\s+|unsigned\s+|struct\s+)*(%s)[\s\*]+(%s)\s*(?:=|;|\[|,|\))" % (ID, ID), body):
        if m.group(1) not in ("return", "else", "goto", "case") and m.group(2) not in KEYWORDS:
            names.add(m.group(2))
    return names


def expr_events(text, ctx, fn, site, allow_lock=False):
    """Events of evaluating an expression / expression statement, as a list of AST nodes."""
    if not text:
        return []
    ev_reads, ev_calls, ev_writes = [], [], []
    # lock / unlock must be whole statements
    m = re.match(r"^cli_mutex_(lock|unlock)\(\s*&\s*(%s)\s*\)$" % ID, text)
    if m:
        if m.group(2) != ctx.outmutex:
            raise GenError("translator cannot parse %s: '%s' uses a mutex other than %s in the output path" % (fn, text, ctx.outmutex))
        return [("ev", "ELock" if m.group(1) == "lock" else "EUnlock")]
    if re.search(r"cli_mutex_(lock|unlock)|cli_semaphore_|pthread_", text):
        raise GenError("translator cannot parse %s: synchronisation call inside an expression: '%s'" % (fn, text[:80]))
    locs = ctx.locals[fn]
    for m in re.finditer(ID, text):
        name = m.group(0)
        pre = text[:m.start()].rstrip()
        post = text[m.end():]
        if name in KEYWORDS or pre.endswith(".") or pre.endswith("->"):
            continue
        if re.match(r"\s*\(", post):
            # a call
            if name in QUEUE_FUNCS and name in ctx.funcs:
                check_queue_func(name, ctx)
            elif name in ctx.funcs:
                ev_calls.append(("call", name))
            elif name in STDOUT_FUNCS:
                ev_calls.append(("out", "Stdout", site))
            elif name in STREAM_FUNCS:
                a0 = post[post.index("(") + 1:match(post, post.index("("), "(", ")") - 1]
                streams = set(re.findall(r"\b(stdout|stderr)\b", a0))
                if len(streams) != 1:
                    raise GenError("translator cannot parse %s: %s(...) writes to a stream that is not plainly stdout or stderr" % (fn, name))
                ev_calls.append(("out", "Stdout" if streams == {"stdout"} else "Stderr", site))
            elif name in EXTERN_PRINTERS:
                ev_calls.append(("outloop", EXTERN_PRINTERS[name], site))
            elif name in SCANNER_ENTRIES:
                ev_calls.append(("scan",))
            elif name in QUIET or name in locs:
                pass
            elif re.match(r"^[A-Z_0-9]+$", name) and name not in ctx.gvars:
                pass      # a macro written in capitals (PRIx64-like tokens never have '(' ; casts have no identifier before '(')
            else:
                raise GenError("translator cannot parse %s: call of '%s', which is neither defined in cli/yara.c nor a listed "
                               "library function (does it print? does it lock?)" % (fn, name))
            continue
        if name in ctx.gvars:
            if name in locs:
                raise GenError("translator cannot parse %s: local '%s' shadows a file-scope variable" % (fn, name))
            if name in (ctx.outmutex, ctx.qmutex, "stdout", "stderr"):
                continue
            wr = bool(ASSIGN.match(post)) or pre.endswith("++") or pre.endswith("--") or (pre.endswith("&") and not pre.endswith("&&"))
            compound = bool(re.match(r"\s*(?:\[[^\]]*\]\s*)*(\+=|-=|\*=|/=|%=|&=|\|=|\^=|<<=|>>=|\+\+|--)", post)) or pre.endswith("++") or pre.endswith("--")
            if wr:
                if compound:
                    ev_reads.append(("var", name, False))
                ev_writes.append(("var", name, True))
            else:
                ev_reads.append(("var", name, False))
    return ev_reads + ev_calls + ev_writes


QUEUE_FUNCS = {"file_queue_get"}


def check_queue_func(name, ctx):
    """The queue functions are not inlined (their own mutex; Proofs/QueueProofs.v); they must not print or touch
    the output mutex."""
    body = ctx.funcs[name][1]
    toks = set(re.findall(ID, body))
    bad = toks & (STDOUT_FUNCS | STREAM_FUNCS | set(EXTERN_PRINTERS) | {ctx.outmutex, "stdout", "stderr"})
    if bad:
        raise GenError("translator cannot parse %s: the queue function prints or uses the output mutex (%s)" % (name, sorted(bad)))
    for v in toks & (ctx.gvars - {ctx.qmutex}):
        ctx.queue_vars.add(v)


def seq(nodes):
    nodes = [x for x in nodes if x != ("skip",)]
    if not nodes:
        return ("skip",)
    r = nodes[-1]
    for x in reversed(nodes[:-1]):
        r = ("seq", x, r)
    return r


def tr_events(evs, ctx, fn):
    out = []
    for e in evs:
        if e[0] == "ev":
            out.append(("ev", e[1]))
        elif e[0] == "var":
            out.append(("ev", 'EVar "%s" %s' % (e[1], "true" if e[2] else "false")))
        elif e[0] == "out":
            ctx.sites.setdefault(e[2], set()).add(e[1])
            out.append(("ev", 'EOut %s "%s"' % (e[1], e[2])))
        elif e[0] == "outloop":
            ctx.sites.setdefault(e[2], set()).add(e[1])
            out.append(("loop", ("skip",), ("ev", 'EOut %s "%s"' % (e[1], e[2]))))
        elif e[0] == "scan":
            out.append(("loop", ("skip",), tr_function(ctx.callback, ctx)))
        elif e[0] == "call":
            out.append(tr_function(e[1], ctx))
    return out


def tr_function(name, ctx):
    if name in ctx.stack:
        raise GenError("translator cannot parse cli/yara.c: recursion through %s in the output path" % name)
    params, body = ctx.funcs[name]
    if name not in ctx.locals:
        ctx.locals[name] = local_names(params, body)
    ctx.stack.append(name)
    ctx.inlined.add(name)
    try:
        return ("fun", name, tr_stmts(parse_block(body, name), ctx, name, name))
    finally:
        ctx.stack.pop()


def tr_stmts(stmts, ctx, fn, site):
    return seq([tr_stmt(s, ctx, fn, site) for s in stmts])


def tr_stmt(s, ctx, fn, site):
    k = s[0]
    if k == "s":
        return seq(tr_events(expr_events(s[1], ctx, fn, site), ctx, fn))
    if k == "seq":
        return tr_stmts(s[1], ctx, fn, site)
    if k == "return":
        return seq(tr_events(expr_events(s[1], ctx, fn, site), ctx, fn) + [("return",)])
    if k == "break":
        return ("break",)
    if k == "continue":
        return ("continue",)
    if k == "if":
        c = tr_events(expr_events(s[1], ctx, fn, site), ctx, fn)
        return seq(c + [("choice", tr_stmts(s[2], ctx, fn, site), tr_stmts(s[3], ctx, fn, site) if s[3] is not None else ("skip",))])
    if k == "loop":
        head = s[1]
        parts = [p.strip() for p in split_top(head, ";")]
        if len(parts) == 3:   # for (init; cond; step)
            init = tr_events(expr_events(parts[0], ctx, fn, site), ctx, fn)
            cond = tr_events(expr_events(parts[1], ctx, fn, site) + expr_events(parts[2], ctx, fn, site), ctx, fn)
        elif len(parts) == 1:
            init, cond = [], tr_events(expr_events(head, ctx, fn, site), ctx, fn)
        else:
            raise GenError("translator cannot parse %s: loop header '%s'" % (fn, head[:60]))
        return seq(init + [("loop", seq(cond), tr_stmts(s[2], ctx, fn, site))])
    if k == "switch":
        c = tr_events(expr_events(s[1], ctx, fn, site), ctx, fn)
        alts = []
        has_default = False
        for labels, ss in s[2]:
            has_default |= "default" in labels
            alts.append(tr_stmts(ss, ctx, fn, fn + ":" + "/".join(labels)))
        if not has_default:
            alts.append(("skip",))
        r = alts[-1]
        for a in reversed(alts[:-1]):
            r = ("choice", a, r)
        return seq(c + [("catch", r)])
    raise GenError("translator cannot parse %s: statement kind %s" % (fn, k))


def split_top(text, sep):
    out, d, cur = [], 0, ""
    for c in text:
        if c in "([{":
            d += 1
        elif c in ")]}":
            d -= 1
        if c == sep and d == 0:
            out.append(cur)
            cur = ""
        else:
            cur += c
    out.append(cur)
    return out


def coq(node, ind=1):
    k = node[0]
    sp = "  " * ind
    if k == "skip":
        return "OSkip"
    if k == "ev":
        return "OEv (%s)" % node[1]
    if k == "return":
        return "OReturn"
    if k == "break":
        return "OBreak"
    if k == "continue":
        return "OContinue"
    if k == "seq":
        return "OSeq (%s)\n%s(%s)" % (coq(node[1], ind + 1), sp, coq(node[2], ind))
    if k == "choice":
        return "OChoice\n%s(%s)\n%s(%s)" % (sp, coq(node[1], ind + 1), sp, coq(node[2], ind + 1))
    if k == "loop":
        return "OLoop (%s)\n%s(%s)" % (coq(node[1], ind + 1), sp, coq(node[2], ind + 1))
    if k == "catch":
        return "OCatchBreak\n%s(%s)" % (sp, coq(node[1], ind + 1))
    if k == "fun":
        return 'OFun "%s"\n%s(%s)' % (node[1], sp, coq(node[2], ind + 1))
    raise GenError("internal: node " + k)


# ---------------------------------------------------------------- python mirror of QueueOutput.orun / NFA for trace acceptance
def find_choices(node, want, limit=200000):
    """A list of choices (as consumed by QueueOutput.orun) whose execution of `node` leaves normally and whose trace
    contains the events of `want` in this order (substring match on the Coq text of the events).  Depth-first over
    choice lists, loops iterate at most once."""
    import itertools
    budget = [limit]

    def run(n, trace_k):
        """generator of (choices, outcome, matched_count)"""
        budget[0] -= 1
        if budget[0] < 0:
            return
        k = n[0]
        if k == "skip":
            yield [], "n", trace_k
        elif k == "ev":
            nk = trace_k + 1 if trace_k < len(want) and want[trace_k] in n[1] else trace_k
            yield [], "n", nk
        elif k in ("return", "break", "continue"):
            yield [], {"return": "r", "break": "b", "continue": "c"}[k], trace_k
        elif k == "seq":
            for c1, o1, k1 in run(n[1], trace_k):
                if o1 != "n":
                    yield c1, o1, k1
                else:
                    for c2, o2, k2 in run(n[2], k1):
                        yield c1 + c2, o2, k2
        elif k == "choice":
            for c1, o1, k1 in run(n[1], trace_k):
                yield [True] + c1, o1, k1
            for c1, o1, k1 in run(n[2], trace_k):
                yield [False] + c1, o1, k1
        elif k == "loop":
            for cc, oc, kc in run(n[1], trace_k):
                if oc != "n":
                    continue
                # one iteration then exit, or no iteration
                for cb, ob, kb in run(n[2], kc):
                    if ob in ("n", "c"):
                        for cc2, oc2, kc2 in run(n[1], kb):
                            if oc2 == "n":
                                yield cc + [True] + cb + cc2 + [False], "n", kc2
                    elif ob == "b":
                        yield cc + [True] + cb, "n", kb
                    else:
                        yield cc + [True] + cb, "r", kb
                yield cc + [False], "n", kc
        elif k == "catch":
            for c1, o1, k1 in run(n[1], trace_k):
                yield c1, ("n" if o1 == "b" else o1), k1
        elif k == "fun":
            for c1, o1, k1 in run(n[2], trace_k):
                if o1 in ("n", "r"):
                    yield c1, "n", k1
    for c, o, kk in run(node, 0):
        if o == "n" and kk == len(want):
            return c
    return None


class NFA:
    """The executions of an ostmt, projected on lock/unlock/output events, as an NFA; used by checks/c18.py to test
    that the event sequence a real worker thread produced is (a prefix of) an execution of the generated model."""

    def __init__(self, node):
        self.eps = []     # state -> list of states
        self.edges = []   # state -> list of (symbol, state)
        self.final = self.new()
        self.dead = self.new()
        self.start = self.comp(node, self.final, self.dead, self.dead, self.final)
        self.cache = {}

    def new(self):
        self.eps.append([])
        self.edges.append([])
        return len(self.eps) - 1

    @staticmethod
    def symbol(ev):
        if ev == "ELock":
            return "L"
        if ev == "EUnlock":
            return "U"
        if ev.startswith("EOut Stdout"):
            return "o"
        if ev.startswith("EOut Stderr"):
            return "e"
        return None

    def comp(self, n, kn, kb, kc, kr):
        k = n[0]
        if k == "skip":
            return kn
        if k == "ev":
            s = self.new()
            sym = self.symbol(n[1])
            if sym is None:
                self.eps[s].append(kn)
            else:
                self.edges[s].append((sym, kn))
            return s
        if k == "return":
            return kr
        if k == "break":
            return kb
        if k == "continue":
            return kc
        if k == "seq":
            return self.comp(n[1], self.comp(n[2], kn, kb, kc, kr), kb, kc, kr)
        if k == "choice":
            s = self.new()
            self.eps[s] += [self.comp(n[1], kn, kb, kc, kr), self.comp(n[2], kn, kb, kc, kr)]
            return s
        if k == "loop":
            head = self.new()
            after = self.new()
            body = self.comp(n[2], head, kn, head, kr)
            self.eps[after] += [body, kn]
            self.eps[head].append(self.comp(n[1], after, self.dead, self.dead, self.dead))
            return head
        if k == "catch":
            return self.comp(n[1], kn, kn, kc, kr)
        if k == "fun":
            return self.comp(n[2], kn, self.dead, self.dead, kn)
        raise GenError("internal: node " + k)

    def closure(self, states):
        seen = set(states)
        todo = list(states)
        while todo:
            s = todo.pop()
            for t in self.eps[s]:
                if t not in seen:
                    seen.add(t)
                    todo.append(t)
        return frozenset(seen)

    def accepts_prefix(self, events):
        """Returns -1 if `events` (string over L U o e) is a prefix of an execution, else the index of the first
        event that no execution can produce."""
        cur = self.closure([self.start])
        for i, sym in enumerate(events):
            key = (cur, sym)
            nxt = self.cache.get(key)
            if nxt is None:
                nxt = self.closure([t for s in cur for (y, t) in self.edges[s] if y == sym])
                self.cache[key] = nxt
            if not nxt:
                return i
            cur = nxt
        return -1


# ---------------------------------------------------------------- driver
def parse():
    raw = drop_defines(_src())
    txt = preprocess(strip_comments_and_literals(raw))
    funcs, gvars = top_level(txt)
    import genqueue
    q = genqueue.parse()
    mutexes = re.findall(r"^MUTEX\s+(%s)\s*;" % ID, txt, re.M)
    others = [m for m in mutexes if m != q["mutex"]]
    if len(others) != 1:
        raise GenError("translator cannot parse cli/yara.c: expected exactly one mutex besides %s, found %s" % (q["mutex"], others))
    outmutex = others[0]
    mainname = "_tmain" if "_tmain" in funcs else "main"
    if mainname not in funcs:
        raise GenError("translator cannot parse cli/yara.c: main not found")
    mainb = funcs[mainname][1]
    ws = set(re.findall(r"cli_create_thread\(\s*&\s*\w+\[\w+\]\s*,\s*(%s)\s*," % ID, mainb))
    cbs = set(re.findall(r"yr_scanner_set_callback\(\s*[^,]+,\s*(%s)\s*," % ID, mainb))
    if len(ws) != 1 or len(cbs) != 1 or not ws <= set(funcs) or not cbs <= set(funcs):
        raise GenError("translator cannot parse main(): worker function %s / scanner callback %s" % (sorted(ws), sorted(cbs)))
    worker, callback = ws.pop(), cbs.pop()
    ctx = Ctx(funcs, gvars, outmutex, q["mutex"], callback)
    ctx.locals = {}
    ctx.queue_vars = set()
    ast = tr_function(worker, ctx)
    # what the main thread does while the workers run
    i0, i1 = mainb.find("cli_create_thread("), mainb.rfind("cli_thread_join(")
    if i0 < 0 or i1 < i0:
        raise GenError("translator cannot parse main(): create/join of the scanning threads")
    queue_objs = {q["head"], q["tail"], q["ring"], q["mutex"], q["sem_used"], q["sem_unused"], outmutex}
    conc = {"main (between create and join)": mainb[i0:i1]}
    todo = [n for n in re.findall(r"(%s)\s*\(" % ID, mainb[i0:i1]) if n in funcs]
    seen = set()
    while todo:
        f = todo.pop()
        if f in seen or f in (worker, callback):
            continue
        seen.add(f)
        conc[f] = funcs[f][1]
        todo += [n for n in re.findall(r"(%s)\s*\(" % ID, funcs[f][1]) if n in funcs]
    main_writes, main_stdout, main_stderr = set(), [], []
    for f, body in conc.items():
        for m in re.finditer(ID, body):
            name = m.group(0)
            pre, post = body[:m.start()].rstrip(), body[m.end():]
            if pre.endswith(".") or pre.endswith("->"):
                continue
            if name in ctx.gvars and name not in queue_objs:
                if ASSIGN.match(post) or pre.endswith("++") or pre.endswith("--"):
                    main_writes.add(name)
            if re.match(r"\s*\(", post):
                if name in STDOUT_FUNCS or name in EXTERN_PRINTERS:
                    main_stdout.append(f)
                elif name in STREAM_FUNCS:
                    a0 = post[post.index("(") + 1:match(post, post.index("("), "(", ")") - 1]
                    (main_stdout if re.search(r"\bstdout\b", a0) else main_stderr).append(f)
    if main_stdout:
        raise GenError("translator cannot parse cli/yara.c: the main thread writes to stdout while the scanning threads run (in %s)"
                       % sorted(set(main_stdout)))
    want = ["ELock", "EOut Stdout", "EUnlock"]
    choices = find_choices(ast, want)
    return dict(ast=ast, worker=worker, callback=callback, outmutex=outmutex, gvars=sorted(set(gvars)),
                inlined=sorted(ctx.inlined), sites={k: sorted(v) for k, v in ctx.sites.items()},
                main_writes=sorted(main_writes), main_stderr=sorted(set(main_stderr)), choices=choices,
                main_concurrent=sorted(conc))


def count_nodes(n):
    return 1 + sum(count_nodes(x) for x in n[1:] if isinstance(x, tuple))


@gen.register("GenOutput.v")
def gen_output():
    d = parse()
    L = lambda xs: "[" + "; ".join('"%s"' % x for x in xs) + "]"
    ch = d["choices"]
    return ("(* GENERATED from /repo/cli/yara.c by lib/genoutput.py: do not edit.\n"
            "   Worker thread function: %s; scanner callback: %s; output mutex: %s.\n"
            "   Functions of cli/yara.c inlined: %s.\n"
            "   Output sites: %s.\n"
            "   The main thread, while the workers run (%s), writes no file-scope variable other than the queue's and\n"
            "   nothing to stdout; it writes to stderr in: %s. *)\n"
            "From Coq Require Import List String.\nImport ListNotations.\nFrom YV Require Import Model.QueueOutput.\n"
            "Local Open Scope string_scope.\n\n"
            "Definition out_worker : ostmt :=\n  %s.\n\n"
            "(* file-scope variables assigned by code the main thread runs between creating and joining the workers *)\n"
            "Definition out_main_writes : list string := %s.\n\n"
            "(* choices (QueueOutput.orun) of one execution that locks, prints to stdout and unlocks *)\n"
            "Definition out_example_choices : list bool := [%s].\n"
            % (d["worker"], d["callback"], d["outmutex"], ", ".join(d["inlined"]),
               "; ".join("%s -> %s" % (k, "+".join(v)) for k, v in sorted(d["sites"].items())),
               ", ".join(d["main_concurrent"]), ", ".join(d["main_stderr"]) or "-",
               coq(d["ast"]), L(d["main_writes"]),
               "; ".join("true" if c else "false" for c in (ch or []))))


if __name__ == "__main__":
    d = parse()
    print({k: v for k, v in d.items() if k not in ("ast",)})
    print("nodes:", count_nodes(d["ast"]))
    txt = gen_output()
    print(len(txt))
    print(txt[:3000])
