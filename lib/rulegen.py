"""Generators of rule sources (structured, mostly valid). All randomness from a vlib.Rng."""

LETTERS = b"abcdefghijklmnopqrstuvwxyzABCDEFGHIJKLMNOPQRSTUVWXYZ0123456789"
SPECIAL = [0x00, 0x20, 0x90, 0xCC, 0xFF, 0x0A, 0x22, 0x5C]


def rand_text(rng, lo=1, hi=12):
    n = rng.range(lo, hi)
    out = bytearray()
    mode = rng.below(4)
    for _ in range(n):
        if mode == 0 or rng.chance(7, 10):
            out.append(rng.choice(LETTERS))
        elif rng.chance(1, 2):
            out.append(rng.choice(SPECIAL))
        else:
            out.append(rng.below(256))
    if mode == 3 and n > 1:
        out = bytearray([out[0]]) * n
    return bytes(out)


def yara_escape(b):
    s = ""
    for c in b:
        if c == 0x22:
            s += '\\"'
        elif c == 0x5C:
            s += "\\\\"
        elif 32 <= c < 127:
            s += chr(c)
        else:
            s += "\\x%02x" % c
    return s


def text_string_decl(rng, ident, text=None, mods=None):
    """returns (decl, info) ; mods chosen among legal combinations."""
    if text is None:
        text = rand_text(rng)
    if mods is None:
        mods = rand_text_mods(rng)
    decl = '%s = "%s"%s' % (ident, yara_escape(text), "".join(" " + m for m in mods_to_words(mods)))
    return decl, {"kind": "text", "id": ident, "text": text, "mods": mods}


def rand_text_mods(rng):
    m = {"ascii": False, "wide": False, "nocase": False, "fullword": False, "xor": None, "private": False}
    k = rng.below(10)
    if k < 3:
        pass
    elif k < 5:
        m["wide"] = True
        m["ascii"] = rng.chance(1, 2)
    elif k < 7:
        m["nocase"] = True
        m["wide"] = rng.chance(1, 3)
        m["ascii"] = m["wide"] and rng.chance(1, 2)
    else:
        lo = rng.below(256)
        hi = rng.range(lo, min(255, lo + rng.choice([0, 0, 1, 3, 40, 255])))
        if rng.chance(1, 5):
            lo, hi = 0, 255
        m["xor"] = (lo, hi)
        m["wide"] = rng.chance(1, 3)
        m["ascii"] = m["wide"] and rng.chance(1, 2)
    m["fullword"] = rng.chance(1, 4)
    m["private"] = rng.chance(1, 10)
    return m


def mods_to_words(m):
    w = []
    if m.get("ascii"):
        w.append("ascii")
    if m.get("wide"):
        w.append("wide")
    if m.get("nocase"):
        w.append("nocase")
    if m.get("fullword"):
        w.append("fullword")
    if m.get("xor") is not None:
        lo, hi = m["xor"]
        w.append("xor(0x%02x-0x%02x)" % (lo, hi) if (lo, hi) != (0, 255) or True else "xor")
    if m.get("private"):
        w.append("private")
    return w


def rand_hex_string(rng, ident):
    toks = []
    n = rng.range(2, 8)
    for i in range(n):
        k = rng.below(12)
        if k < 7 or i == 0 or i == n - 1:
            toks.append("%02X" % rng.below(256))
        elif k < 8:
            toks.append("??")
        elif k < 9:
            toks.append("%X?" % rng.below(16))
        elif k < 10:
            a = rng.choice([0, 1, 2, 5, 199, 200, 201, 300])
            b = a + rng.choice([0, 1, 3, 250])
            toks.append("[%d-%d]" % (a, b))
        elif k < 11:
            toks.append("( %02X | %02X %02X )" % (rng.below(256), rng.below(256), rng.below(256)))
        else:
            toks.append("~%02X" % rng.below(256))
    return "%s = { %s }" % (ident, " ".join(toks)), {"kind": "hex", "id": ident}


REGEXES = ["ab+c", "a.c", "[a-f]{2,4}x", "foo|bar", "(ab)*c", "\\d+\\.\\d+", "a[^b]c", "x?y?z", "\\bword\\b",
           "he(l+)o", "a.{1,3}b", "[0-9a-f]{4}", "ab*?c", "(a|b|c){3}", "w\\w+d"]


def rand_regex_string(rng, ident):
    r = rng.choice(REGEXES)
    mods = rng.choice(["", " nocase", " wide", " ascii wide", " fullword"])
    return "%s = /%s/%s" % (ident, r, mods), {"kind": "re", "id": ident}


def rand_rule(rng, name, externals=(), prior_rules=(), imports=()):
    ns = rng.range(0, 4)
    decls, infos = [], []
    for i in range(ns):
        ident = "$s%d" % i
        k = rng.below(10)
        if k < 5:
            d, inf = text_string_decl(rng, ident)
        elif k < 8:
            d, inf = rand_hex_string(rng, ident)
        else:
            d, inf = rand_regex_string(rng, ident)
        decls.append(d)
        infos.append(inf)
    conds = []
    if ns:
        conds += ["any of them", "all of them", "%d of them" % rng.range(1, ns), "#s0 > %d" % rng.below(3),
                  "$s0 at %d" % rng.below(20), "$s%d" % rng.below(ns), "for any of them : ( @ > %d )" % rng.below(30),
                  "$s0 in (%d..%d)" % (rng.below(10), 10 + rng.below(30))]
    conds += ["filesize > %d" % rng.below(64), "true", "uint8(%d) == %d" % (rng.below(8), rng.below(256)),
              "for all i in (0..%d) : ( uint8(i) < 256 )" % rng.below(5)]
    if externals:
        e = rng.choice(list(externals))
        conds += ["%s > %d" % (e, rng.below(10))] if externals[e] == "i" else ["%s" % e] if externals[e] == "b" else \
                 ['%s contains "a"' % e] if externals[e] == "s" else ["%s > 0.5" % e]
    if prior_rules:
        conds += [rng.choice(list(prior_rules))]
    cond = rng.choice(conds)
    if rng.chance(1, 3):
        cond = "%s %s %s" % (cond, rng.choice(["and", "or"]), rng.choice(conds))
    flags = rng.choice(["", "", "", "private ", "global ", "global private "])
    tags = rng.choice(["", "", " : t1", " : t1 t2"])
    metas = rng.choice(["", '  meta:\n    a = "x"\n    b = %d\n    c = true\n' % rng.below(1000)])
    s = "%srule %s%s {\n%s" % (flags, name, tags, metas)
    if decls:
        s += "  strings:\n" + "".join("    %s\n" % d for d in decls)
    s += "  condition:\n    %s\n}\n" % cond
    if ns and not any(("$s%d" % i) in cond or "them" in cond for i in range(ns)):
        # unreferenced strings are a compile error: reference them
        s = s.replace("  condition:\n    %s\n" % cond, "  condition:\n    (%s) or any of them\n" % cond)
    elif ns and "them" not in cond:
        s = s.replace("  condition:\n    %s\n" % cond, "  condition:\n    (%s) or any of them\n" % cond)
    return s, {"name": name, "strings": infos, "flags": flags.split()}


def rand_ruleset(rng, nrules=None):
    """returns (commands-before-getrules, description)"""
    nrules = nrules or rng.range(1, 5)
    ext = {}
    cmds = ["newcompiler"]
    for i in range(rng.below(3)):
        t = rng.choice("ibsf")
        name = "ext%d" % i
        ext[name] = t
        if t == "i":
            cmds.append("defi %s %d" % (name, rng.range(-5, 20)))
        elif t == "b":
            cmds.append("defb %s %d" % (name, rng.below(2)))
        elif t == "s":
            cmds.append("defs %s %s" % (name, rand_text(rng, 1, 6).replace(b"\0", b"a").hex()))
        else:
            cmds.append("deff %s %s" % (name, rng.choice(["0.25", "1.5", "-3.0"])))
    srcs = []
    names = []
    nss = ["-", "-", "nsA", "nsB"]
    cur = []
    curns = "-"
    for i in range(nrules):
        name = "r%d" % i
        if rng.chance(1, 4) or i == 0:
            if cur:
                srcs.append((curns, "".join(cur)))
                cur = []
            newns = rng.choice(nss)
            if newns != curns:
                names = []
            curns = newns
        r, info = rand_rule(rng, name, ext, names)
        cur.append(r)
        names.append(name)
    if cur:
        srcs.append((curns, "".join(cur)))
    imp = rng.choice(["", "", 'import "math"\n', 'import "pe"\n'])
    for k, (ns, src) in enumerate(srcs):
        cmds.append("ns %s" % ns)
        cmds.append("add " + ((imp if k == 0 else "") + src).encode().hex())
    return cmds, {"sources": [(ns, (imp if k == 0 else "") + s) for k, (ns, s) in enumerate(srcs)], "externals": ext}
