"""GenLimits.v: the limit tests of the engine as the source states them NOW (C15).

For every limit the translator cuts the one C test that enforces it out of the source text and emits
 * the comparison OPERATOR of the test as a `cmpop` (Base/Cmp.v),
 * the operand macro (a name of gen/GenConsts.v) or literal,
 * small structural facts (test before/after the increment, the value a counter starts from, ...).
Constants that are not macros of the public headers (defaults set by yr_initialize, MEM_SIZE of exec.c,
the spacing of the clock reads) are evaluated by a C program or read as literals.

Model/Limits.v is written over these definitions, so `==` -> `>` or `<` -> `<=` in the source changes
the model and breaks the theorem that states the limit exactly.  Every pattern must be found exactly
once: otherwise GenError("translator cannot parse ...").
"""
import os, re
import gen
from gen import GenError, REPO

OPS = {"==": "CEq", "!=": "CNe", "<": "CLt", "<=": "CLe", ">": "CGt", ">=": "CGe"}
def _iter_pushes(t, name):
    """maximum number of `stack->items[stack->sp++]` stores on a path through iter_<x>_next (exec.c).
    The functions are straight-line code with if/else blocks, `goto _stop_iter` and `return`s: the body is cut
    at the top-level `return ERROR_SUCCESS;` statements (main path, _stop_iter path); inside a segment an
    if/else counts as the larger branch."""
    m = re.search(r"static\s+int\s+%s\s*\([^)]*\)\s*\{" % re.escape(name), t)
    if not m:
        raise GenError("translator cannot parse exec.c: " + name)
    i = m.end()
    depth, j = 1, i
    while depth and j < len(t):
        depth += {"{": 1, "}": -1}.get(t[j], 0)
        j += 1
    body = re.sub(r"//[^\n]*|/\*.*?\*/", "", t[i:j - 1], flags=re.S)
    PUSH = re.compile(r"stack->items\s*\[\s*stack->sp\+\+\s*\]")
    if "while" in body or "for (" in body or "for(" in body or re.search(r"stack->sp\s*(\+=|-=|--|=[^=])", body):
        raise GenError("translator cannot parse exec.c: %s changes stack->sp in a way the push counter does not understand" % name)

    def count(src):
        """max pushes of a statement sequence"""
        total, k = 0, 0
        while k < len(src):
            mm = re.compile(r"\s*if\s*\(").match(src, k)
            if mm:
                k = _skip_paren(src, mm.end() - 1)
                a, k = _stmt(src, k)
                b = ""
                me = re.compile(r"\s*else\b").match(src, k)
                if me:
                    b, k = _stmt(src, me.end())
                total += max(count(a), count(b))
                continue
            st, k2 = _stmt(src, k)
            if k2 <= k:
                break
            total += len(PUSH.findall(st)) if not st.lstrip().startswith("{") else count(st.strip()[1:-1])
            k = k2
        return total

    segs = re.split(r"\n  return ERROR_SUCCESS\s*;", body)
    n = max(count(sg) for sg in segs)
    if n < 1 or len(PUSH.findall(body)) < n:
        raise GenError("translator cannot parse exec.c: no pushes found in " + name)
    return n


def _skip_paren(src, k):
    depth = 0
    while k < len(src):
        depth += {"(": 1, ")": -1}.get(src[k], 0)
        k += 1
        if depth == 0:
            return k
    return k


def _stmt(src, k):
    """one statement starting at k: a { block } or text up to the next ';' (labels `x:` are skipped)"""
    while k < len(src) and src[k].isspace():
        k += 1
    if k >= len(src):
        return "", k
    if src[k] == "{":
        depth, j = 0, k
        while j < len(src):
            depth += {"{": 1, "}": -1}.get(src[j], 0)
            j += 1
            if depth == 0:
                break
        return src[k:j], j
    j = k
    depth = 0
    while j < len(src):
        c = src[j]
        depth += {"(": 1, ")": -1}.get(c, 0)
        if c == ";" and depth == 0:
            return src[k:j + 1], j + 1
        if c == ":" and depth == 0 and re.match(r"\w+$", src[k:j].strip() or " ") and src[j + 1:j + 2] != ":":
            return "", j + 1      # a label
        j += 1
    return src[k:], len(src)


OPRE = r"(==|!=|<=|>=|<|>)"


def _src(rel):
    p = os.path.join(REPO, "libyara", rel)
    if not os.path.exists(p):
        raise GenError("translator cannot parse %s: file not found" % rel)
    txt = open(p, encoding="latin-1").read()
    # comments out, line continuations joined, whitespace runs collapsed (text-level, deliberately dumb)
    txt = re.sub(r"/\*.*?\*/", " ", txt, flags=re.S)
    txt = re.sub(r"//[^\n]*", " ", txt)
    txt = txt.replace("\\\n", " ")
    return txt


def _one(rel, txt, pattern, what, flags=re.S):
    ms = list(re.finditer(pattern, txt, flags))
    if len(ms) != 1:
        raise GenError("translator cannot parse %s: %s (pattern found %d times, expected once)" % (rel, what, len(ms)))
    return ms[0]


def _function_body(rel, txt, header_re):
    m = _one(rel, txt, header_re, "function header " + header_re)
    i = txt.index("{", m.end() - 1) if txt[m.end() - 1] != "{" else m.end() - 1
    depth = 0
    j = i
    while j < len(txt):
        if txt[j] == "{":
            depth += 1
        elif txt[j] == "}":
            depth -= 1
            if depth == 0:
                return txt[i:j + 1]
        j += 1
    raise GenError("translator cannot parse %s: unbalanced braces after %s" % (rel, header_re))


class Out:
    def __init__(self):
        self.lines = []
        self.macros = set(gen._macro_names())

    def comment(self, s):
        self.lines.append("\n(* %s *)" % s.replace("*)", "* )"))

    def op(self, name, tok):
        self.lines.append("Definition %s : cmpop := %s." % (name, OPS[tok]))

    def z(self, name, val):
        self.lines.append("Definition %s : Z := (%d)%%Z." % (name, int(val)))

    def b(self, name, val):
        self.lines.append("Definition %s : bool := %s." % (name, "true" if val else "false"))

    def operand(self, name, tok, where):
        """a macro of the public headers (by name, value from GenConsts) or an integer literal"""
        tok = tok.strip()
        if re.fullmatch(r"-?\d+", tok):
            self.z(name, int(tok))
        elif re.fullmatch(r"0[xX][0-9a-fA-F]+", tok):
            self.z(name, int(tok, 16))
        elif tok in self.macros:
            self.lines.append("Definition %s : Z := %s." % (name, tok))
        else:
            raise GenError("translator cannot parse %s: operand '%s' is neither a literal nor a macro of the public headers" % (where, tok))


def _int_lit(tok, where):
    m = re.fullmatch(r"(\d+)(?:ULL|UL|LL|U|L)?", tok.strip())
    if not m:
        raise GenError("translator cannot parse %s: '%s' is not an integer literal" % (where, tok))
    return int(m.group(1))


STDINT = {"INT16_MAX": 32767, "INT16_MIN": -32768, "UINT16_MAX": 65535, "INT32_MAX": 2147483647, "INT32_MIN": -2147483648,
          "UINT32_MAX": 4294967295, "INT8_MAX": 127, "UINT8_MAX": 255}


def _gen_re_emit(o, rel, t):
    """re.c _yr_re_emit: the distance tests that precede every narrowing of a code distance, and the sizes of the
    instructions, for Model/ReEmit.v"""
    body = _function_body(rel, t, r"static\s+int\s+_yr_re_emit\s*\([^)]*\)\s*\{")
    cases = {}
    parts = re.split(r"case\s+(RE_NODE_\w+)\s*:", body)
    for k in range(1, len(parts) - 1, 2):
        cases[parts[k]] = parts[k + 1]
    CHK = re.compile(r"if\s*\(\s*([\w.>-]+?)\s*-\s*([\w.>-]+?)\s*" + OPRE + r"\s*(\w+)\s*\)\s*return\s+(\w+)\s*;\s*"
                     r"(?:[\w.>-]+\s*=\s*\(\s*(\w+)\s*\)\s*\(\s*([\w.>-]+?)\s*-\s*([\w.>-]+?)\s*\))?")
    want = {   # case -> [(name, minuend, subtrahend, narrowed to)]
        "RE_NODE_PLUS": [("re_plus_back", "instruction_ref.offset", "bookmark_1", "int16_t")],
        "RE_NODE_STAR": [("re_star_back", "instruction_ref.offset", "bookmark_1", "int16_t"),
                         ("re_star_fwd", "bookmark_1", "instruction_ref.offset", "int16_t")],
        "RE_NODE_ALT": [("re_alt_split", "bookmark_1", "instruction_ref.offset", "int16_t"),
                        ("re_alt_jump", "bookmark_1", "jmp_instruction_ref.offset", "int16_t")],
        "RE_NODE_RANGE": [("re_range_rep_back", "bookmark_2", "bookmark_3", "int32_t"),
                          ("re_range_rep_fwd", "bookmark_4", "bookmark_1", "int32_t"),
                          ("re_range_split", "bookmark_2", "bookmark_1", "int16_t")],
    }
    o.comment("re.c _yr_re_emit: `if (A - B OP LIMIT) return ERROR_REGULAR_EXPRESSION_TOO_LARGE; x = (intN_t) (A - B)` "
              "(A, B are uint32 arena offsets: a backward distance is tested as a wrapped unsigned value)")
    for cs, lst in want.items():
        if cs not in cases:
            raise GenError("translator cannot parse re.c: no `case %s` in _yr_re_emit" % cs)
        found = CHK.findall(cases[cs])
        if len(found) != len(lst):
            raise GenError("translator cannot parse re.c: case %s has %d distance tests, expected %d" % (cs, len(found), len(lst)))
        for (name, a_, b_, ty), f in zip(lst, found):
            fa, fb, op, lim, err, cast, ca, cb = f
            if (fa, fb) != (a_, b_) or err != "ERROR_REGULAR_EXPRESSION_TOO_LARGE":
                raise GenError("translator cannot parse re.c: case %s test `%s - %s` returns %s (expected %s - %s)" % (cs, fa, fb, err, a_, b_))
            if lim not in STDINT:
                raise GenError("translator cannot parse re.c: limit '%s' of the %s test is not a <stdint.h> constant" % (lim, name))
            later = re.search(r"\(\s*%s\s*\)\s*\(\s*%s\s*-\s*%s\s*\)" % (ty, re.escape(a_), re.escape(b_)), cases[cs])
            if ty == "int16_t" and (cast != ty or (ca, cb) != (a_, b_)) and not later:
                raise GenError("translator cannot parse re.c: the distance of %s is not narrowed by `(%s) (%s - %s)` right after its test" % (name, ty, a_, b_))
            o.op(name + "_op", op)
            o.z(name + "_lim", STDINT[lim])
    # instruction sizes
    m = re.search(r"typedef\s+\w+\s+RE_SPLIT_ID_TYPE\s*;.*?RE_REPEAT_ANY_ARGS\s*;\s*#pragma\s+pack\s*\(\s*pop\s*\)", t, re.S)
    if not m:
        raise GenError("translator cannot parse re.c: RE_SPLIT_ID_TYPE / RE_REPEAT_ARGS / RE_REPEAT_ANY_ARGS definitions")
    prog = ('#include <stdio.h>\n#include <stdint.h>\n#include <yara/re.h>\n' + m.group(0) + '\nint main(){'
            'printf("%zu %zu %zu %zu\\n", sizeof(RE_SPLIT_ID_TYPE), sizeof(RE_REPEAT_ARGS), sizeof(RE_REPEAT_ANY_ARGS), sizeof(RE_CLASS));return 0;}')
    out, err = gen._compile_run(prog)
    if out is None:
        raise GenError("translator cannot evaluate the instruction sizes of re.c: " + err[:300])
    sid, rep, repany, cls = [int(x) for x in out.split()]
    o.comment("sizes of the regexp instructions _yr_re_emit writes: opcode byte + arguments")
    o.z("re_sz_split", 1 + sid + 2)
    o.z("re_sz_jump", 1 + 2)
    o.z("re_sz_literal", 1 + 1)
    o.z("re_sz_any", 1)
    o.z("re_sz_class", 1 + cls)
    o.z("re_sz_repeat", 1 + rep)
    o.z("re_sz_repeat_any", 1 + repany)


CTYPES = {"int": "s32", "int32_t": "s32", "signed": "s32", "unsigned": "u32", "unsigned int": "u32", "uint32_t": "u32",
          "long": "s64", "long long": "s64", "int64_t": "s64", "unsigned long": "u64", "unsigned long long": "u64", "uint64_t": "u64",
          "size_t": "u64"}
CMAX = {"s32": 2 ** 31 - 1, "u32": 2 ** 32 - 1, "s64": 2 ** 63 - 1, "u64": 2 ** 64 - 1}


def _cwrap(ty, term):
    bits = 32 if ty.endswith("32") else 64
    if ty[0] == "u":
        return "(c_wrap_u %d %s)" % (2 ** bits, term)
    return "(c_wrap_s %d %d %s)" % (2 ** bits, 2 ** (bits - 1), term)


def _cexpr_typed(src, var, vartype, where):
    """C expression over one variable, integer literals, `*`, `+`, casts and parentheses -> (Gallina term over Z, C type),
    with the usual arithmetic conversions and wrap-around made explicit"""
    toks = re.findall(r"\d+[uUlL]*|[A-Za-z_]\w*|[()*+]", src)
    if "".join(toks) != re.sub(r"\s+", "", src):
        raise GenError("translator cannot parse %s: expression '%s'" % (where, src.strip()))
    pos = [0]

    def peek():
        return toks[pos[0]] if pos[0] < len(toks) else None

    def take():
        pos[0] += 1
        return toks[pos[0] - 1]

    def join(a, b):
        ra, rb = int(a[1:]), int(b[1:])
        if ra == rb:
            return ("u" if "u" in (a[0], b[0]) else "s") + str(ra)
        return a if ra > rb else b

    def binop(l, r_, opc):
        t_ = join(l[1], r_[1])
        return (_cwrap(t_, "(%s %s %s)" % (_cwrap(t_, l[0]), opc, _cwrap(t_, r_[0]))), t_)

    def atom():
        t_ = peek()
        if t_ == "(":
            take()
            # a cast?
            j = pos[0]
            words = []
            while j < len(toks) and re.fullmatch(r"[A-Za-z_]\w*", toks[j]):
                words.append(toks[j])
                j += 1
            if words and j < len(toks) and toks[j] == ")" and " ".join(words) in CTYPES:
                pos[0] = j + 1
                ty = CTYPES[" ".join(words)]
                a = atom()
                return (_cwrap(ty, a[0]), ty)
            e = add()
            if take() != ")":
                raise GenError("translator cannot parse %s: unbalanced parentheses in '%s'" % (where, src.strip()))
            return e
        take()
        if t_ == var:
            return (var, vartype)
        m_ = re.fullmatch(r"(\d+)([uUlL]*)", t_ or "")
        if not m_:
            raise GenError("translator cannot parse %s: token '%s' in '%s'" % (where, t_, src.strip()))
        v, suf = int(m_.group(1)), m_.group(2).lower()
        if "u" in suf:
            ty = "u64" if "l" in suf or v > CMAX["u32"] else "u32"
        else:
            ty = "s64" if "l" in suf or v > CMAX["s32"] else "s32"
        return ("%d" % v, ty)

    def mul():
        l = atom()
        while peek() == "*":
            take()
            l = binop(l, atom(), "*")
        return l

    def add():
        l = mul()
        while peek() == "+":
            take()
            l = binop(l, mul(), "+")
        return l
    e = add()
    if pos[0] != len(toks):
        raise GenError("translator cannot parse %s: trailing tokens in '%s'" % (where, src.strip()))
    return e


def _gen_timeout(o, t):
    """scanner.c yr_scanner_set_timeout: seconds -> the nanoseconds the two deadline tests compare with yr_stopwatch_elapsed_ns"""
    m = _one("scanner.c", t, r"void\s+yr_scanner_set_timeout\s*\(\s*YR_SCANNER\s*\*\s*scanner\s*,\s*([\w ]+?)\s+timeout\s*\)\s*\{\s*"
                             r"scanner->timeout\s*=\s*([^;]+);\s*\}", "yr_scanner_set_timeout")
    pty = " ".join(m.group(1).split())
    if pty not in CTYPES:
        raise GenError("translator cannot parse scanner.c: parameter type '%s' of yr_scanner_set_timeout" % pty)
    f = re.search(r"uint64_t\s+timeout\s*;", _src("include/yara/types.h"))
    if not f:
        raise GenError("translator cannot parse types.h: YR_SCAN_CONTEXT.timeout is not a uint64_t")
    term, ty = _cexpr_typed(m.group(2), "timeout", CTYPES[pty], "scanner.c yr_scanner_set_timeout")
    o.comment("scanner.c yr_scanner_set_timeout(scanner, %s timeout): `scanner->timeout = %s;` (uint64_t field, compared with "
              "yr_stopwatch_elapsed_ns in the block loop and in the VM); integer types and wrap-around explicit" % (pty, " ".join(m.group(2).split())))
    o.z("timeout_param_max", CMAX[CTYPES[pty]])
    o.lines.append("Definition timeout_ns (timeout : Z) : Z := %s." % _cwrap("u64", term))
    o.z("timeout_ns_per_second", 10 ** 9)


@gen.register("GenLimits.v")
def gen_limits():
    o = Out()
    # ------------------------------------------------------------------ libyara.c: defaults of the configurable limits
    rel = "libyara.c"
    t = _src(rel)
    body = _function_body(rel, t, r"YR_API\s+int\s+yr_initialize\s*\(\s*void\s*\)\s*\{")
    o.comment("libyara.c yr_initialize: defaults of the configurable limits, as passed to yr_set_configuration")
    exprs = []
    for var, cfg, name in (("def_stack_size", "YR_CONFIG_STACK_SIZE", "cfg_default_stack_size"),
                           ("def_max_strings_per_rule", "YR_CONFIG_MAX_STRINGS_PER_RULE", "cfg_default_max_strings_per_rule"),
                           ("def_max_match_data", "YR_CONFIG_MAX_MATCH_DATA", "cfg_default_max_match_data")):
        m = _one(rel, body, r"uint32_t\s+%s\s*=\s*([^;]+);" % var, "initialiser of " + var)
        _one(rel, body, r"yr_set_configuration\s*\(\s*%s\s*,\s*&\s*%s\s*\)" % (cfg, var), "yr_set_configuration(%s, &%s)" % (cfg, var))
        exprs.append((name, m.group(1).strip()))
    # yr_set_configuration stores the uint32 as it is (no clamping)
    setb = _function_body(rel, t, r"YR_API\s+int\s+yr_set_configuration\s*\(\s*YR_CONFIG_NAME\s+name\s*,\s*void\s*\*\s*src\s*\)\s*\{")
    _one(rel, setb, r"case\s+YR_CONFIG_STACK_SIZE\s*:\s*case\s+YR_CONFIG_MAX_STRINGS_PER_RULE\s*:\s*case\s+YR_CONFIG_MAX_MATCH_DATA\s*:\s*"
                    r"yr_cfgs\s*\[\s*name\s*\]\s*\.\s*ui32\s*=\s*\*\s*\(\s*uint32_t\s*\*\s*\)\s*src\s*;",
         "yr_set_configuration stores the three uint32 settings unchanged")
    # ------------------------------------------------------------------ exec.c
    rel = "exec.c"
    t = _src(rel)
    m = _one(rel, t, r"#\s*define\s+MEM_SIZE\s+([^\n]+)\n", "MEM_SIZE")
    exprs.append(("exec_MEM_SIZE", m.group(1).strip()))
    prog = ("#include <stdio.h>\n#include <stdint.h>\n#include <yara/limits.h>\n#include <yara/libyara.h>\n#include <yara/compiler.h>\n"
            "int main(){\n" + "".join('printf("%%s %%lld\\n", "%s", (long long)(%s));\n' % (n, e) for n, e in exprs) + "return 0;}\n")
    out, err = gen._compile_run(prog)
    if out is None:
        raise GenError("translator cannot evaluate defaults/MEM_SIZE: " + err[:400])
    vals = dict(l.split() for l in out.strip().split("\n"))
    for n, e in exprs:
        if n not in vals:
            raise GenError("translator cannot evaluate " + n)
        o.lines.append("Definition %s : Z := (%s)%%Z.   (* %s *)" % (n, vals[n], e.replace("*)", "* )")))

    o.comment("exec.c push(x): `if (stack.sp OP stack.capacity) store else ERROR_EXEC_STACK_OVERFLOW`")
    m = _one(rel, t, r"#\s*define\s+push\s*\(\s*x\s*\)\s*if\s*\(\s*stack\.sp\s*" + OPRE + r"\s*stack\.capacity\s*\)\s*\{\s*"
                     r"stack\.items\s*\[\s*stack\.sp\+\+\s*\]\s*=\s*\(x\)\s*;\s*\}\s*else\s*\{\s*result\s*=\s*(\w+)\s*;\s*stop\s*=\s*true\s*;",
             "push macro")
    o.op("vm_push_op", m.group(1))
    o.operand("vm_push_error", m.group(2), "exec.c push")
    m = _one(rel, t, r"yr_get_configuration_uint32\s*\(\s*YR_CONFIG_STACK_SIZE\s*,\s*&\s*stack\.capacity\s*\)\s*;\s*stack\.sp\s*=\s*(\d+)\s*;",
             "stack initialisation from YR_CONFIG_STACK_SIZE")
    o.z("vm_sp_init", m.group(1))
    o.comment("exec.c iterators: `if (stack->sp + K OP stack->capacity) return ERROR_EXEC_STACK_OVERFLOW` then K+1 pushes")
    its = re.findall(r"static\s+int\s+(iter_\w+_next)\s*\([^)]*\)\s*\{\s*if\s*\(\s*stack->sp\s*\+\s*(\d+)\s*" + OPRE +
                     r"\s*stack->capacity\s*\)\s*return\s+ERROR_EXEC_STACK_OVERFLOW\s*;", t)
    if len(its) < 4:
        raise GenError("translator cannot parse exec.c: iterator stack checks (found %d)" % len(its))
    o.lines.append("Definition vm_iter_checks : list (Z * cmpop) := [%s]." % "; ".join("(%s, %s)" % (k, OPS[op]) for _, k, op in its))
    o.lines.append("(* %s *)" % ", ".join(n for n, _, _ in its))
    o.comment("the slots each iterator writes after its room test: `stack->items[stack->sp++]` stores on the longest path")
    pushes = [_iter_pushes(t, n) for n, _, _ in its]
    o.lines.append("Definition vm_iter_pushes : list Z := [%s]." % "; ".join(str(k) for k in pushes))

    o.comment("exec.c clock read: `if (context->timeout > 0ULL && ++cycle OP N) { elapsed...; if (elapsed_time OP2 context->timeout) ...; cycle = R; }`")
    m = _one(rel, t, r"if\s*\(\s*context->timeout\s*>\s*0ULL\s*&&\s*\+\+cycle\s*" + OPRE + r"\s*(\w+)\s*\)\s*\{\s*"
                     r"elapsed_time\s*=\s*yr_stopwatch_elapsed_ns\s*\(\s*&context->stopwatch\s*\)\s*;\s*"
                     r"if\s*\(\s*elapsed_time\s*" + OPRE + r"\s*context->timeout\s*\)\s*\{(.*?)\}\s*cycle\s*=\s*(\d+)\s*;\s*\}",
             "timeout check of yr_execute_code")
    o.op("vm_check_op", m.group(1))
    o.z("vm_check_cycles", _int_lit(m.group(2), "exec.c cycle count"))
    o.op("vm_timeout_op", m.group(3))
    if not re.search(r"result\s*=\s*ERROR_SCAN_TIMEOUT\s*;\s*stop\s*=\s*true\s*;", m.group(4)):
        raise GenError("translator cannot parse exec.c: timeout branch does not set ERROR_SCAN_TIMEOUT and stop")
    o.z("vm_cycle_reset", m.group(5))
    m2 = _one(rel, t, r"int\s+cycle\s*=\s*(\d+)\s*;", "initial value of cycle")
    o.z("vm_cycle_init", m2.group(1))
    if len(re.findall(r"\bcycle\b", t)) != 3:
        raise GenError("translator cannot parse exec.c: `cycle` is used in %d places, expected 3 (init, ++cycle test, reset)"
                       % len(re.findall(r"\bcycle\b", t)))
    # where the test sits in `while (!stop) { opcode = *ip; ip++; switch (opcode) {...} <test> }`: when it is the last
    # statement of the loop body, `stop = true` is followed by the loop's own `!stop` test; anywhere before the switch one more
    # instruction executes first (and may overwrite result / stop)
    wm = _one(rel, t, r"while\s*\(\s*!stop\s*\)\s*\{", "instruction loop `while (!stop) {`")
    depth, j = 1, wm.end()
    while depth and j < len(t):
        depth += {"{": 1, "}": -1}.get(t[j], 0)
        j += 1
    lbody = t[wm.end():j - 1]
    fm = re.search(r"opcode\s*=\s*\*ip\s*;\s*ip\+\+\s*;", lbody)
    sm = re.search(r"switch\s*\(\s*opcode\s*\)\s*\{", lbody)
    cm = re.search(r"if\s*\(\s*context->timeout\s*>\s*0ULL\s*&&\s*\+\+cycle", lbody)
    if not fm or not sm or not cm or sm.start() < fm.start():
        raise GenError("translator cannot parse exec.c: instruction loop `while (!stop) { opcode = *ip; ip++; switch (opcode) {..} }` with the timeout test inside")
    depth, k = 1, sm.end()
    while depth and k < len(lbody):
        depth += {"{": 1, "}": -1}.get(lbody[k], 0)
        k += 1
    sw_end = k
    # end of the timeout block: `if (...) { ... }`
    k = lbody.index("{", cm.start())
    depth, k = 1, k + 1
    while depth and k < len(lbody):
        depth += {"{": 1, "}": -1}.get(lbody[k], 0)
        k += 1
    last = lbody[k:].strip() == ""
    after_switch = cm.start() >= sw_end
    o.comment("exec.c: instructions executed between a positive deadline test (`result = ERROR_SCAN_TIMEOUT; stop = true`) and the exit of "
              "`while (!stop)`: 0 when the test is the last statement of the loop body (after the switch), 1 when it sits before the switch")
    o.z("vm_instrs_after_deadline_test", 0 if (after_switch and last) else 1)
    o.b("vm_deadline_test_after_switch", after_switch)

    # ------------------------------------------------------------------ scan.c
    rel = "scan.c"
    t = _src(rel)
    body = _function_body(rel, t, r"static\s+int\s+_yr_scan_add_match_to_list\s*\([^)]*\)\s*\{")
    o.comment("scan.c _yr_scan_add_match_to_list: `if (matches_list->count OP LIMIT) { result = ERR; goto _exit; }` before the insertion")
    m = _one(rel, body, r"if\s*\(\s*matches_list->count\s*" + OPRE + r"\s*(\w+)\s*\)\s*\{\s*result\s*=\s*(\w+)\s*;\s*goto\s+_exit\s*;\s*\}",
             "match cap test")
    o.op("match_cap_op", m.group(1))
    o.operand("match_cap_limit", m.group(2), "scan.c match cap")
    o.operand("match_cap_error", m.group(3), "scan.c match cap")
    pos_test = m.start()
    inc = _one(rel, body, r"matches_list->count\+\+\s*;", "matches_list->count++")
    loop = _one(rel, body, r"while\s*\(\s*insertion_point\s*!=\s*NULL\s*\)", "insertion loop")
    o.b("match_cap_test_first", pos_test < loop.start() < inc.start())
    body = _function_body(rel, t, r"int\s+yr_scan_verify_match\s*\([^)]*\)\s*\{")
    o.comment("scan.c yr_scan_verify_match: disabled strings are skipped; ERROR_TOO_MANY_MATCHES is negotiated with the callback")
    o.b("disabled_string_skipped", bool(re.search(
        r"if\s*\(\s*yr_bitmask_is_set\s*\(\s*context->strings_temp_disabled\s*,\s*string->idx\s*\)\s*\)\s*return\s+ERROR_SUCCESS\s*;", body)))
    m = _one(rel, body, r"if\s*\(\s*result\s*==\s*(\w+)\s*\)\s*\{\s*result\s*=\s*callback\s*\(\s*context\s*,\s*(\w+)\s*,\s*\(void\s*\*\)\s*string\s*,"
                        r"\s*context->user_data\s*\)\s*;\s*switch\s*\(\s*result\s*\)\s*\{\s*case\s+CALLBACK_CONTINUE\s*:(.*?)break\s*;\s*"
                        r"default\s*:\s*result\s*=\s*(\w+)\s*;\s*break\s*;\s*\}\s*\}", "too-many-matches negotiation")
    o.operand("too_many_trigger", m.group(1), "scan.c negotiation")
    o.operand("too_many_message", m.group(2), "scan.c negotiation")
    cont = m.group(3)
    o.b("too_many_continue_disables", bool(re.search(r"yr_bitmask_set\s*\(\s*context->strings_temp_disabled\s*,\s*string->idx\s*\)\s*;", cont)))
    mc = re.search(r"result\s*=\s*(\w+)\s*;", cont)
    if not mc:
        raise GenError("translator cannot parse scan.c: result of the CALLBACK_CONTINUE branch")
    o.operand("too_many_continue_result", mc.group(1), "scan.c negotiation")
    o.operand("too_many_other_result", m.group(4), "scan.c negotiation")
    o.comment("scan.c: data_length = yr_min(match_length, (int32_t) max_match_data)")
    casts = re.findall(r"data_length\s*=\s*yr_min\s*\(\s*match_length\s*,\s*(\(\s*int32_t\s*\)\s*)?max_match_data\s*\)\s*;", t)
    if len(casts) < 2:
        raise GenError("translator cannot parse scan.c: data_length = yr_min(match_length, max_match_data) (found %d)" % len(casts))
    if len(set(bool(c) for c in casts)) != 1:
        raise GenError("translator cannot parse scan.c: data_length computations differ from each other")
    o.b("match_data_cast_int32", bool(casts[0]))

    # ------------------------------------------------------------------ scanner.c
    rel = "scanner.c"
    t = _src(rel)
    body = _function_body(rel, t, r"static\s+int\s+_yr_scanner_scan_mem_block\s*\([^)]*\)\s*\{")
    o.comment("scanner.c block loop: `while (i < block->size) { if (i % N == R && scanner->timeout > 0) { if (elapsed OP timeout) ERROR_SCAN_TIMEOUT } ... block_data[i++] ...}`")
    m = _one(rel, body, r"while\s*\(\s*i\s*<\s*block->size\s*\)\s*\{\s*if\s*\(([^{}]*?)\)\s*\{\s*"
                        r"if\s*\(\s*yr_stopwatch_elapsed_ns\s*\(\s*&scanner->stopwatch\s*\)\s*" + OPRE + r"\s*scanner->timeout\s*\)\s*\{\s*"
                        r"result\s*=\s*(\w+)\s*;\s*goto\s+_exit\s*;", "timeout check of the block loop")
    # the guard: a conjunction of `i % N == R`, `scanner->timeout > 0` and further tests of the in-block offset i
    conj = [c_.strip() for c_ in m.group(1).split("&&")]
    if "||" in m.group(1) or "?" in m.group(1):
        raise GenError("translator cannot parse scanner.c: guard of the block loop's timeout check is not a conjunction: " + m.group(1).strip())
    mods = [re.fullmatch(r"\(?\s*i\s*%\s*(\d+)\s*==\s*(\d+)\s*\)?", c_) for c_ in conj]
    tmo = [c_ for c_ in conj if re.fullmatch(r"\(?\s*scanner->timeout\s*(>|!=)\s*0\s*\)?", c_)]
    if len([x for x in mods if x]) != 1 or len(tmo) != 1:
        raise GenError("translator cannot parse scanner.c: guard `%s` needs exactly one `i %% N == R` and one `scanner->timeout > 0`" % m.group(1).strip())
    mm0 = [x for x in mods if x][0]
    extra = []
    for c_, mx in zip(conj, mods):
        if mx or c_ in tmo:
            continue
        me = re.fullmatch(r"\(?\s*i\s*" + OPRE + r"\s*(\d+)\s*\)?", c_)
        if not me:
            raise GenError("translator cannot parse scanner.c: conjunct `%s` of the block loop's timeout guard" % c_)
        extra.append("cmp_eval %s i %s" % (OPS[me.group(1)], me.group(2)))
    o.z("block_check_modulus", mm0.group(1))
    o.z("block_check_residue", mm0.group(2))
    o.lines.append("(* further conjuncts of the guard, over the offset i inside the current block *)")
    o.lines.append("Definition block_guard_extra (i : Z) : bool := %s." % " && ".join(extra + ["true"]))
    o.op("block_timeout_op", m.group(2))
    o.operand("block_timeout_error", m.group(3), "scanner.c timeout")
    nostr = re.sub(r'"(?:[^"\\\n]|\\.)*"', '""', body)
    steps = re.findall(r"\bi\+\+|\+\+i\b|\bi\s*\+=|\bi\s*-=|\bi--|\bi\s*=[^=]", nostr)
    # `size_t i = 0;` is the only assignment, `block_data[i++]` the only increment
    if steps.count("i++") != 1 or len([s for s in steps if s != "i++"]) != 1 or not re.search(r"size_t\s+i\s*=\s*0\s*;", body):
        raise GenError("translator cannot parse scanner.c: the block loop must advance i by exactly one `i++` per iteration (found %r)" % steps)
    o.z("block_index_init", 0)
    o.z("block_index_step", 1)
    _gen_timeout(o, t)
    o.comment("scanner.c slow-scanning warning: visit test `scanner->matches->count OP SLOW` (matches[0]: the string with index 0), final test lo/hi")
    m = _one(rel, body, r"if\s*\(\s*scanner->matches->count\s*" + OPRE + r"\s*(\w+)\s*\)\s*\{\s*report_string\s*=\s*match->string\s*;", "slow visit test")
    o.op("slow_visit_op", m.group(1))
    o.operand("slow_limit", m.group(2), "scanner.c slow visit")
    m = _one(rel, body, r"if\s*\(\s*rule\s*!=\s*NULL\s*&&\s*scanner->matches->count\s*" + OPRE + r"\s*(\w+)\s*&&\s*scanner->matches->count\s*" +
             OPRE + r"\s*(\w+)\s*\)", "slow final test")
    o.op("slow_final_lo_op", m.group(1))
    o.operand("slow_final_lo", m.group(2), "scanner.c slow final")
    o.op("slow_final_hi_op", m.group(3))
    o.operand("slow_final_hi", m.group(4), "scanner.c slow final")
    o.z("slow_counts_string_index", 0)

    # ------------------------------------------------------------------ re.c / re_lexer.l
    rel = "re.c"
    t = _src(rel)
    body = _function_body(rel, t, r"int\s+_yr_emit_split\s*\([^)]*\)\s*\{")
    _gen_re_emit(o, rel, t)
    o.comment("re.c _yr_emit_split: `if (emit_context->next_split_id OP RE_MAX_SPLIT_ID) return ERROR_REGULAR_EXPRESSION_TOO_COMPLEX` before next_split_id++")
    m = _one(rel, body, r"if\s*\(\s*emit_context->next_split_id\s*" + OPRE + r"\s*(\w+)\s*\)\s*return\s+(\w+)\s*;", "split id test")
    o.op("split_id_op", m.group(1))
    o.operand("split_id_limit", m.group(2), "re.c split id")
    o.operand("split_id_error", m.group(3), "re.c split id")
    inc = _one(rel, body, r"emit_context->next_split_id\+\+\s*;", "next_split_id++")
    o.b("split_id_test_first", m.start() < inc.start())
    body = _function_body(rel, t, r"static\s+int\s+_yr_re_fiber_create\s*\([^)]*\)\s*\{")
    o.comment("re.c _yr_re_fiber_create: `if (fiber_pool->fiber_count OP RE_MAX_FIBERS) return ERROR_TOO_MANY_RE_FIBERS` before fiber_count++ (only when the free list is empty)")
    m = _one(rel, body, r"if\s*\(\s*fiber_pool->fiber_count\s*" + OPRE + r"\s*(\w+)\s*\)\s*return\s+(\w+)\s*;", "fiber test")
    o.op("fiber_op", m.group(1))
    o.operand("fiber_limit", m.group(2), "re.c fibers")
    o.operand("fiber_error", m.group(3), "re.c fibers")
    inc = _one(rel, body, r"fiber_pool->fiber_count\+\+\s*;", "fiber_count++")
    o.b("fiber_test_first", m.start() < inc.start())
    o.comment("re.c RE_NODE_RANGE: which of prolog/repeat/epilog are emitted (each contains the code of e once), and the jump-size tests")
    o.z("re_jump_tests", len(re.findall(r">\s*INT16_MAX\s*\)\s*return\s+ERROR_REGULAR_EXPRESSION_TOO_LARGE", t)))
    rel = "re_lexer.l"
    t = _src(rel)
    o.comment("re_lexer.l: `if (hi_bound OP RE_MAX_RANGE)` -> repeat interval too large")
    m = _one(rel, t, r"if\s*\(\s*hi_bound\s*" + OPRE + r"\s*(\w+)\s*\)\s*\{\s*yyerror\s*\(\s*yyscanner\s*,\s*lex_env\s*,\s*\"repeat interval too large\"", "range bound test")
    o.op("re_range_op", m.group(1))
    o.operand("re_range_limit", m.group(2), "re_lexer.l range")

    # ------------------------------------------------------------------ grammar.y / compiler.c / parser.c
    rel = "grammar.y"
    t = _src(rel)
    o.comment("grammar.y for-loops: `if (compiler->loop_index + K OP YR_MAX_LOOP_NESTING) result = ERROR_LOOP_NESTING_LIMIT_EXCEEDED; ... compiler->loop_index++`")
    ms = list(re.finditer(r"if\s*\(\s*compiler->loop_index\s*\+\s*(\d+)\s*" + OPRE + r"\s*(\w+)\s*\)\s*result\s*=\s*(\w+)\s*;\s*fail_if_error\s*\(\s*result\s*\)\s*;\s*"
                          r"compiler->loop_index\+\+\s*;", t))
    if len(ms) < 1:
        raise GenError("translator cannot parse grammar.y: loop nesting test")
    sig = set((m.group(1), m.group(2), m.group(3), m.group(4)) for m in ms)
    if len(sig) != 1:
        raise GenError("translator cannot parse grammar.y: the %d loop nesting tests differ: %r" % (len(ms), sig))
    if len(ms) != len(re.findall(r"compiler->loop_index\+\+", t)):
        raise GenError("translator cannot parse grammar.y: a loop_index++ without the nesting test")
    k, op, lim, errn = ms[0].groups()
    o.z("loop_nest_add", k)
    o.op("loop_nest_op", op)
    o.operand("loop_nest_limit", lim, "grammar.y loop nesting")
    o.operand("loop_nest_error", errn, "grammar.y loop nesting")
    o.z("loop_nest_tests", len(ms))
    rel = "compiler.c"
    t = _src(rel)
    m = _one(rel, t, r"new_compiler->loop_index\s*=\s*(-?\d+)\s*;", "initial loop_index")
    o.z("loop_index_init", m.group(1))
    body = _function_body(rel, t, r"int\s+_yr_compiler_push_file_name\s*\([^)]*\)\s*\{")
    o.comment("compiler.c _yr_compiler_push_file_name: `if (compiler->file_name_stack_ptr OP YR_MAX_INCLUDE_DEPTH) return ERROR_INCLUDE_DEPTH_EXCEEDED` before ptr++")
    m = _one(rel, body, r"if\s*\(\s*compiler->file_name_stack_ptr\s*" + OPRE + r"\s*(\w+)\s*\)\s*return\s+(\w+)\s*;", "include depth test")
    o.op("include_op", m.group(1))
    o.operand("include_limit", m.group(2), "compiler.c include depth")
    o.operand("include_error", m.group(3), "compiler.c include depth")
    inc = _one(rel, body, r"compiler->file_name_stack_ptr\+\+\s*;", "file_name_stack_ptr++")
    o.b("include_test_first", m.start() < inc.start())
    m = _one(rel, t, r"new_compiler->file_name_stack_ptr\s*=\s*(\d+)\s*;", "initial file_name_stack_ptr")
    o.z("include_ptr_init", m.group(1))
    rel = "parser.c"
    t = _src(rel)
    body = _function_body(rel, t, r"int\s+yr_parser_reduce_rule_declaration_phase_2\s*\([^)]*\)\s*\{")
    o.comment("parser.c phase 2: per string `strings_in_rule++; if (strings_in_rule OP max_strings_per_rule) return ERROR_TOO_MANY_STRINGS`")
    m = _one(rel, body, r"strings_in_rule\+\+\s*;\s*if\s*\(\s*strings_in_rule\s*" + OPRE + r"\s*max_strings_per_rule\s*\)\s*\{[^{}]*return\s+(\w+)\s*;\s*\}",
             "strings per rule test (after the increment)")
    o.op("strings_op", m.group(1))
    o.operand("strings_error", m.group(2), "parser.c strings per rule")
    m = _one(rel, body, r"uint32_t\s+strings_in_rule\s*=\s*(\d+)\s*;", "initial strings_in_rule")
    o.z("strings_count_init", m.group(1))
    _one(rel, body, r"yr_get_configuration_uint32\s*\(\s*YR_CONFIG_MAX_STRINGS_PER_RULE\s*,\s*&\s*max_strings_per_rule\s*\)", "limit read from the configuration")

    # ------------------------------------------------------------------ lexer.l
    rel = "lexer.l"
    t = _src(rel)
    o.comment("lexer.l lex_check_space_ok(data, current_size, max_length): `if (strlen(data) + current_size OP max_length - S)` -> error")
    m = _one(rel, t, r"#\s*define\s+lex_check_space_ok\s*\(\s*data\s*,\s*current_size\s*,\s*max_length\s*\)\s*if\s*\(\s*strlen\s*\(\s*data\s*\)\s*\+\s*current_size\s*" +
             OPRE + r"\s*max_length\s*-\s*(\d+)\s*\)", "lex_check_space_ok")
    o.op("lexbuf_op", m.group(1))
    o.z("lexbuf_slack", m.group(2))
    uses = re.findall(r"lex_check_space_ok\s*\(\s*[^,]+,\s*yyextra->lex_buf_len\s*,\s*(\w+)\s*\)", t)
    if not uses or len(set(uses)) != 1:
        raise GenError("translator cannot parse lexer.l: uses of lex_check_space_ok %r" % uses)
    o.operand("lexbuf_size", uses[0], "lexer.l lex buffer")
    o.comment("lexer.l identifiers: `if (strlen(yytext) OP N) syntax_error(\"identifier too long\")`")
    m = _one(rel, t, r"if\s*\(\s*strlen\s*\(\s*yytext\s*\)\s*" + OPRE + r"\s*(\w+)\s*\)\s*syntax_error\s*\(\s*\"identifier too long\"\s*\)", "identifier length test")
    o.op("ident_op", m.group(1))
    o.operand("ident_limit", m.group(2), "lexer.l identifier")
    o.comment("lexer.l integer literals: strtoll clamps; `integer == LLONG_MAX && errno == ERANGE` -> overflow; KB/MB: `integer OP LLONG_MAX / M` -> overflow else *= M")
    n = len(re.findall(r"if\s*\(\s*yylval->integer\s*==\s*LLONG_MAX\s*&&\s*errno\s*==\s*ERANGE\s*\)\s*\{[^{}]*error\s*\(\s*ERROR_INTEGER_OVERFLOW\s*\)", t))
    if n != 3:
        raise GenError("translator cannot parse lexer.l: strtoll overflow tests (found %d, expected decimal/hex/octal)" % n)
    o.b("int_clamp_detected", True)
    for suf, nm in (("KB", "kb"), ("MB", "mb")):
        m = _one(rel, t, r"strstr\s*\(\s*yytext\s*,\s*\"%s\"\s*\)\s*!=\s*NULL\s*\)\s*\{\s*if\s*\(\s*yylval->integer\s*" % suf + OPRE +
                 r"\s*LLONG_MAX\s*/\s*(\d+)\s*\)\s*\{[^{}]*error\s*\(\s*ERROR_INTEGER_OVERFLOW\s*\)\s*;\s*\}\s*else\s*\{\s*yylval->integer\s*\*=\s*(\d+)\s*;",
                 suf + " multiplier test")
        o.op("int_%s_op" % nm, m.group(1))
        o.z("int_%s_div" % nm, m.group(2))
        o.z("int_%s_mul" % nm, m.group(3))

    head = ("(* GENERATED from /repo's sources (scan.c, scanner.c, exec.c, re.c, re_lexer.l, grammar.y, parser.c, compiler.c,\n"
            "   lexer.l, libyara.c) by lib/genlimits.py: do not edit *)\n"
            "From Coq Require Import ZArith List.\nFrom YV Require Import Base.Cmp gen.GenConsts.\nImport ListNotations.\n"
            "Local Open Scope Z_scope.\n")
    return head + "\n".join(o.lines) + "\n"
