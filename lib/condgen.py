"""Random well-typed condition trees, their s-expression form (for the Gallina evaluator) and their
YARA source printed with MINIMAL parentheses according to the manual's precedence table."""

ARITH = {"mul": ("*", 9), "div": ("\\", 9), "mod": ("%", 9), "add": ("+", 8), "sub": ("-", 8), "shl": ("<<", 7), "shr": (">>", 7),
         "band": ("&", 6), "bxor": ("^", 5), "bor": ("|", 4)}
CMP = {"lt": "<", "gt": ">", "le": "<=", "ge": ">=", "eq": "==", "ne": "!="}
LV_UNARY, LV_CMP, LV_EQ, LV_NOT, LV_AND, LV_OR = 10, 3, 2, 1, 0, -1
NSTR = 3
# identifiers of the strings: the first is a proper prefix of the second (string sets select by exact name or by `*` wildcard)
SIDS = ["_s0", "_s01", "_s2"]


def sid(i):
    return SIDS[i]


def const_value(t):
    """value of the small non-negative constant trees built by Gen.const_small (no overflow, no division by zero)"""
    if t[0] == "lit":
        return t[1]
    a, b = const_value(t[1]), const_value(t[2])
    return {"shr": lambda: a >> b, "shl": lambda: a << b, "div": lambda: a // b, "mod": lambda: a % b, "band": lambda: a & b, "bxor": lambda: a ^ b,
            "bor": lambda: a | b, "sub": lambda: a - b, "mul": lambda: a * b, "add": lambda: a + b}[t[0]]()


class Gen:
    def __init__(self, rng, nrules_before, next_n):
        self.r = rng
        self.nb = nrules_before
        self.ne = next_n
        self.loop_depth = 0
        self.in_forof = False
        self.vars = 0

    # ---- integers
    def small(self):
        if self.r.chance(1, 12):
            # around every width at which the compiler may pick another instruction to push a constant
            return ("lit", self.r.choice([2 ** 8, 2 ** 16, 2 ** 31 - 1, 2 ** 31, 2 ** 32 - 1, 2 ** 32, 2 ** 32 + 1, 2 ** 33 + 5, 2 ** 35, 2 ** 36 - 1, 2 ** 36, 2 ** 36 + 1, 2 ** 40 + 3,
                                          2 ** 48, 2 ** 56 + 1, 2 ** 62, 2 ** 63 - 1]))
        return ("lit", self.r.choice([0, 1, 2, 3, 4, 5, 7, 8, 16, 63, 64, 255, 256, 65535]) if self.r.chance(4, 5) else self.r.below(1 << self.r.choice([8, 31, 40, 62])))

    def const_small(self):
        """a constant expression (folded by the compiler) whose value is a small offset / index / shift amount"""
        r = self.r
        a, b = r.choice([(64, 2), (40, 1), (9, 3), (255, 5), (12, 2), (33, 4), (7, 1), (100, 6)])
        op = r.choice(["shr", "shl", "div", "mod", "band", "bxor", "bor", "sub", "mul", "add"])
        if op == "shl":
            a, b = r.choice([(1, 3), (3, 2), (5, 1), (2, 4)])
        elif op == "mul":
            a, b = r.choice([(3, 4), (5, 5), (2, 9)])
        elif op == "add":
            a, b = r.choice([(3, 4), (15, 5), (0, 9)])
        t = (op, ("lit", a), ("lit", b))
        if r.chance(1, 4):
            t = (r.choice(["shr", "band", "mod"]), t, ("lit", r.choice([1, 3, 7])))
        return t

    def iexpr(self, d):
        r = self.r
        k = r.below(17)
        if k == 16:
            return self.const_small()
        if d <= 0 or k < 4:
            c = r.below(8)
            if c < 3:
                return self.small()
            if c == 3:
                return ("fs",)
            if c == 4 and self.ne:
                return ("ext", r.below(self.ne))
            if c == 5:
                return ("cnt", r.below(NSTR))
            if c == 6 and self.vars:
                return ("var", r.below(self.vars))
            return self.small()
        if k < 6:
            return (r.choice(["off", "len"]), r.below(NSTR), self.index_expr(d - 1))
        if k < 8:
            return ("rd", r.choice([1, 2, 4]), r.below(2), r.below(2), self.offset_expr(d - 1))
        if k < 9:
            return (r.choice(["neg", "bnot"]), self.iexpr(d - 1))
        op = r.choice(list(ARITH))
        if op in ("shl", "shr") and r.chance(3, 4):
            return (op, self.iexpr(d - 1), ("lit", r.choice([0, 1, 2, 7, 31, 63, 64, 65])))
        return (op, self.iexpr(d - 1), self.iexpr(d - 1))

    def index_expr(self, d):
        return ("lit", self.r.below(4)) if self.r.chance(2, 3) else self.iexpr(min(d, 1))

    def offset_expr(self, d):
        r = self.r
        c = r.below(5)
        if c == 0:
            return ("lit", r.below(40)) if r.chance(1, 2) else self.const_small()
        if c == 1:
            return ("sub", ("fs",), ("lit", r.below(6)))
        if c == 2:
            return ("off", r.below(NSTR), ("lit", 1))
        if c == 3 and self.vars:
            return ("var", r.below(self.vars))
        return self.iexpr(min(d, 2))

    def quant(self):
        r = self.r
        c = r.below(6)
        if c == 0:
            return "all"
        if c == 1:
            return "any"
        if c == 2:
            return "none"
        if c == 3:
            return ("num", ("lit", r.below(4)))
        return ("num", self.iexpr(1))

    def strset(self):
        r = self.r
        if r.chance(1, 2):
            return list(range(NSTR))
        s = [i for i in range(NSTR) if r.chance(1, 2)]
        return s or [r.below(NSTR)]

    def bexpr(self, d):
        r = self.r
        k = r.below(24)
        if d <= 0 or k < 3:
            c = r.below(6)
            if c == 0:
                return (r.choice(["t", "f"]),)
            if c == 1 and self.nb:
                return ("rule", r.below(self.nb))
            if c == 2 and self.in_forof:
                return ("cur",)
            return ("s", r.below(NSTR))
        if k < 5:
            if self.in_forof and r.chance(1, 2):
                return ("curat", self.offset_expr(d - 1))
            return ("at", r.below(NSTR), self.offset_expr(d - 1))
        if k < 7:
            lo = self.offset_expr(d - 1)
            hi = ("add", lo, ("lit", r.below(12))) if r.chance(1, 2) else self.offset_expr(d - 1)
            if self.in_forof and r.chance(1, 2):
                return ("curin", lo, hi)
            return ("in", r.below(NSTR), lo, hi)
        if k < 11:
            if r.chance(1, 5):
                # a folded constant expression compared with its value (and with a neighbour of it)
                ce = self.const_small()
                return ("cmp", r.choice(["eq", "eq", "ne", "le", "ge"]), ce, ("lit", max(0, const_value(ce) + r.choice([0, 0, 0, 1, -1]))))
            return ("cmp", r.choice(list(CMP)), self.iexpr(d - 1), self.iexpr(d - 1))
        if k < 14:
            return (r.choice(["and", "or"]), self.bexpr(d - 1), self.bexpr(d - 1))
        if k < 16:
            return ("not", self.bexpr(d - 1))
        if k < 17:
            return ("def", self.bexpr(d - 1)) if r.chance(1, 2) else ("defi", self.iexpr(d - 1))
        if k < 19:
            c = r.below(4)
            if c == 0:
                lo = self.offset_expr(d - 1)
                hi = ("add", lo, ("lit", r.below(12))) if r.chance(1, 2) else self.offset_expr(d - 1)
                return ("ofin", self.quant(), self.strset(), lo, hi)
            if c == 1:
                return ("ofat", self.quant(), self.strset(), self.offset_expr(d - 1))
            return ("of", self.quant(), self.strset())
        if k < 20:
            return ("int", self.iexpr(d - 1))
        if self.loop_depth >= 3:
            return ("s", r.below(NSTR))
        if k < 22 or self.in_forof:
            q = self.quant()
            if r.chance(1, 2):
                lo = ("lit", r.below(4)) if r.chance(3, 4) else ("cnt", r.below(NSTR))
                hi = ("lit", r.below(7)) if r.chance(3, 4) else ("add", ("cnt", r.below(NSTR)), ("lit", r.below(3)))
                self.loop_depth += 1
                self.vars += 1
                body = self.shift_body(d - 1)
                self.vars -= 1
                self.loop_depth -= 1
                return ("forin", q, lo, hi, body)
            items = [self.iexpr(1) for _ in range(r.range(1, 4))]
            self.loop_depth += 1
            self.vars += 1
            body = self.shift_body(d - 1)
            self.vars -= 1
            self.loop_depth -= 1
            return ("forlist", q, items, body)
        q = self.quant()
        st = self.strset()
        self.loop_depth += 1
        self.in_forof = True
        body = self.bexpr(d - 1)
        self.in_forof = False
        self.loop_depth -= 1
        return ("forof", q, st, body)

    def shift_body(self, d):
        # inside the loop the new variable is index 0; outer ones shift by one: generate the body with self.vars updated
        return self.bexpr(d)


# ---- s-expression for the model runner
def sexp(e):
    k = e[0]
    if k == "lit":
        return "( lit %d )" % e[1]
    if k in ("fs", "t", "f", "cur"):
        return "( %s )" % k
    if k in ("ext", "cnt", "var", "s", "rule"):
        return "( %s %d )" % (k, e[1])
    if k in ("off", "len", "at"):
        return "( %s %d %s )" % (k, e[1], sexp(e[2]))
    if k == "rd":
        return "( rd %d %d %d %s )" % (e[1], e[2], e[3], sexp(e[4]))
    if k in ("neg", "bnot", "not", "def", "defi", "int", "curat"):
        return "( %s %s )" % (k, sexp(e[1]))
    if k in ARITH or k in ("and", "or", "curin"):
        return "( %s %s %s )" % (k, sexp(e[1]), sexp(e[2]))
    if k == "in":
        return "( in %d %s %s )" % (e[1], sexp(e[2]), sexp(e[3]))
    if k == "cmp":
        return "( cmp %s %s %s )" % (e[1], sexp(e[2]), sexp(e[3]))
    if k == "of":
        return "( of %s %d %s )" % (qsexp(e[1]), len(e[2]), " ".join(str(x) for x in e[2]))
    if k == "ofin":
        return "( ofin %s %d %s %s %s )" % (qsexp(e[1]), len(e[2]), " ".join(str(x) for x in e[2]), sexp(e[3]), sexp(e[4]))
    if k == "ofat":
        return "( ofat %s %d %s %s )" % (qsexp(e[1]), len(e[2]), " ".join(str(x) for x in e[2]), sexp(e[3]))
    if k == "forin":
        return "( forin %s %s %s %s )" % (qsexp(e[1]), sexp(e[2]), sexp(e[3]), sexp(e[4]))
    if k == "forlist":
        return "( forlist %s %d %s %s )" % (qsexp(e[1]), len(e[2]), " ".join(sexp(x) for x in e[2]), sexp(e[3]))
    if k == "forof":
        return "( forof %s %d %s %s )" % (qsexp(e[1]), len(e[2]), " ".join(str(x) for x in e[2]), sexp(e[3]))
    raise ValueError(k)


def qsexp(q):
    return q if isinstance(q, str) else "( num %s )" % sexp(q[1])


# ---- YARA source, minimal parentheses
def level(e):
    k = e[0]
    if k in ARITH:
        return ARITH[k][1]
    if k in ("neg", "bnot"):
        return LV_UNARY
    if k == "cmp":
        return LV_CMP if e[1] in ("lt", "gt", "le", "ge") else LV_EQ
    if k in ("not", "def", "defi"):
        return LV_NOT
    if k == "and":
        return LV_AND
    if k == "or":
        return LV_OR
    if k == "int":
        return level(e[1])
    if k in ("at", "in", "curat", "curin", "of", "ofin", "ofat", "forin", "forlist", "forof"):
        return 50     # parsed as units by the grammar (their operands are parenthesised below)
    return 100


def paren(s):
    return "(" + s + ")"


class Printer:
    def __init__(self, rule_names):
        self.names = rule_names
        self.varstack = []

    def p(self, e, minlevel, strict=False):
        s = self.raw(e)
        lv = level(e)
        if lv < minlevel or (strict and lv == minlevel):
            return paren(s)
        return s

    def arg(self, e):
        # operand of at / in / indexes / function arguments: parenthesise unless atomic
        s = self.raw(e)
        return s if level(e) >= 100 else paren(s)

    def var(self, n):
        return self.varstack[len(self.varstack) - 1 - n]

    def q(self, q):
        return q if isinstance(q, str) else self.arg(q[1])

    def sset(self, st):
        if st == [0, 1]:
            return "($_s0*)"            # the wildcard form selects exactly the two identifiers that start with _s0
        return "them" if st == list(range(NSTR)) else "(" + ",".join("$" + sid(i) for i in st) + ")"

    def raw(self, e):
        k = e[0]
        if k == "lit":
            return str(e[1])
        if k == "fs":
            return "filesize"
        if k == "ext":
            return "ext%d" % e[1]
        if k == "cnt":
            return "#" + sid(e[1])
        if k == "var":
            return self.var(e[1])
        if k == "off":
            return "@%s[%s]" % (sid(e[1]), self.raw(e[2]))
        if k == "len":
            return "!%s[%s]" % (sid(e[1]), self.raw(e[2]))
        if k == "rd":
            return "%sint%d%s(%s)" % ("" if e[2] else "u", 8 * e[1], "be" if e[3] else "", self.raw(e[4]))
        if k == "neg":
            return "-" + self.p(e[1], LV_UNARY)
        if k == "bnot":
            return "~" + self.p(e[1], LV_UNARY)
        if k in ARITH:
            sym, lv = ARITH[k]
            return "%s %s %s" % (self.p(e[1], lv), sym, self.p(e[2], lv, strict=True))     # left associative
        if k in ("t", "f"):
            return "true" if k == "t" else "false"
        if k == "s":
            return "$" + sid(e[1])
        if k == "cur":
            return "$"
        if k == "rule":
            return self.names[e[1]]
        if k == "at":
            return "$%s at %s" % (sid(e[1]), self.arg(e[2]))
        if k == "curat":
            return "$ at %s" % self.arg(e[1])
        if k == "in":
            return "$%s in (%s..%s)" % (sid(e[1]), self.raw(e[2]), self.raw(e[3]))
        if k == "curin":
            return "$ in (%s..%s)" % (self.raw(e[1]), self.raw(e[2]))
        if k == "cmp":
            lv = level(e)
            return "%s %s %s" % (self.p(e[2], LV_CMP + 1), CMP[e[1]], self.p(e[3], LV_CMP + 1))
        if k == "and":
            return "%s and %s" % (self.p(e[1], LV_AND), self.p(e[2], LV_AND, strict=True))
        if k == "or":
            return "%s or %s" % (self.p(e[1], LV_OR), self.p(e[2], LV_OR, strict=True))
        if k == "not":
            return "not " + self.p(e[1], LV_NOT)
        if k == "def":
            return "defined " + self.p(e[1], LV_NOT)
        if k == "defi":
            return "defined " + self.p(e[1], LV_NOT)
        if k == "int":
            return self.raw(e[1])
        if k == "of":
            return "%s of %s" % (self.q(e[1]), self.sset(e[2]))
        if k == "ofin":
            return "%s of %s in (%s..%s)" % (self.q(e[1]), self.sset(e[2]), self.raw(e[3]), self.raw(e[4]))
        if k == "ofat":
            return "%s of %s at %s" % (self.q(e[1]), self.sset(e[2]), self.arg(e[3]))
        if k == "forin":
            name = "i%d" % len(self.varstack)
            lo, hi = self.raw(e[2]), self.raw(e[3])
            q = self.q(e[1])
            self.varstack.append(name)
            body = self.raw(e[4])
            self.varstack.pop()
            return "for %s %s in (%s..%s) : ( %s )" % (q, name, lo, hi, body)
        if k == "forlist":
            name = "i%d" % len(self.varstack)
            items = ", ".join(self.raw(x) for x in e[2])
            q = self.q(e[1])
            self.varstack.append(name)
            body = self.raw(e[3])
            self.varstack.pop()
            return "for %s %s in (%s) : ( %s )" % (q, name, items, body)
        if k == "forof":
            return "for %s of %s : ( %s )" % (self.q(e[1]), self.sset(e[2]), self.raw(e[3]))
        raise ValueError(k)


def has_undefined_quant_risk(e):
    """does the tree contain a numeric quantifier that is not a literal (may evaluate to undefined)?"""
    if not isinstance(e, tuple):
        return False
    if e[0] in ("of", "ofin", "ofat", "forin", "forlist", "forof") and not isinstance(e[1], str) and e[1][1][0] != "lit":
        return True
    return any(has_undefined_quant_risk(x) if isinstance(x, tuple) else any(has_undefined_quant_risk(y) for y in x) if isinstance(x, list) else False
               for x in e[1:])


def quant_exprs(e):
    """the non-literal numeric quantifier expressions of a tree"""
    out = []
    if not isinstance(e, tuple):
        return out
    if e[0] in ("of", "ofin", "ofat", "forin", "forlist", "forof") and not isinstance(e[1], str) and e[1][1][0] != "lit":
        out.append(e[1][1])
    for x in e[1:]:
        if isinstance(x, tuple):
            out += quant_exprs(x)
        elif isinstance(x, list):
            for y in x:
                out += quant_exprs(y)
    return out


def mentions_var(e):
    if not isinstance(e, tuple):
        return False
    if e[0] in ("var", "cur", "curat", "curin"):
        return True
    return any(mentions_var(x) if isinstance(x, tuple) else any(mentions_var(y) for y in x) if isinstance(x, list) else False for x in e[1:])
