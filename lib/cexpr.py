"""A small parser for the C subset used in grammar.y actions, exec.c cases and bounds macros,
and an emitter to Gallina over the C-semantics layer of coq/Base/CSem.v.

Anything outside the subset raises ParseError ("translator cannot parse").
"""
import re


class ParseError(Exception):
    pass


TOKEN = re.compile(r"""
    (?P<ws>\s+|//[^\n]*|/\*.*?\*/)
  | (?P<num>0[xX][0-9a-fA-F]+[uUlL]*|\d+[uUlL]*)
  | (?P<dollar>\$\$|\$\d+)
  | (?P<id>[A-Za-z_][A-Za-z_0-9]*)
  | (?P<str>"(?:\\.|[^"\\])*")
  | (?P<chr>'(?:\\.|[^'\\])')
  | (?P<op><<=|>>=|<<|>>|<=|>=|==|!=|&&|\|\||->|\+\+|--|\+=|-=|\*=|/=|[-+*/%&|^~!<>=?:;,.(){}\[\]])
""", re.X | re.S)


def tokenize(src):
    toks = []
    pos = 0
    while pos < len(src):
        m = TOKEN.match(src, pos)
        if not m:
            raise ParseError("cannot tokenize at: %r" % src[pos:pos + 30])
        pos = m.end()
        if m.lastgroup == "ws":
            continue
        toks.append((m.lastgroup, m.group(m.lastgroup)))
    return toks


BINPREC = [("||",), ("&&",), ("|",), ("^",), ("&",), ("==", "!="), ("<", ">", "<=", ">="), ("<<", ">>"),
           ("+", "-"), ("*", "/", "%")]


class Parser:
    def __init__(self, toks):
        self.t = toks
        self.i = 0

    def peek(self, k=0):
        return self.t[self.i + k] if self.i + k < len(self.t) else ("eof", "")

    def next(self):
        tok = self.peek()
        self.i += 1
        return tok

    def accept(self, v):
        if self.peek()[1] == v:
            self.i += 1
            return True
        return False

    def expect(self, v):
        if not self.accept(v):
            raise ParseError("expected %r, found %r" % (v, self.peek()[1]))

    # ---- expressions
    def expr(self):
        return self.ternary()

    def ternary(self):
        c = self.binary(0)
        if self.accept("?"):
            a = self.expr()
            self.expect(":")
            b = self.ternary()
            return ("cond", c, a, b)
        return c

    def binary(self, lvl):
        if lvl == len(BINPREC):
            return self.unary()
        l = self.binary(lvl + 1)
        while self.peek()[1] in BINPREC[lvl] and self.peek()[0] == "op":
            op = self.next()[1]
            r = self.binary(lvl + 1)
            l = ("bin", op, l, r)
        return l

    def unary(self):
        k, v = self.peek()
        if k == "op" and v in ("-", "~", "!", "+"):
            self.next()
            return ("un", v, self.unary())
        if k == "op" and v == "(":
            # cast?  ( type ) unary
            j = self.i + 1
            ty = []
            while j < len(self.t) and self.t[j][0] == "id" and self.t[j][1] in (
                    "size_t", "int64_t", "uint64_t", "uint32_t", "int32_t", "int", "unsigned", "long", "uint8_t",
                    "const", "char", "void", "uint16_t", "int16_t"):
                ty.append(self.t[j][1])
                j += 1
            stars = 0
            while j < len(self.t) and self.t[j][1] == "*":
                stars += 1
                j += 1
            if ty and j < len(self.t) and self.t[j][1] == ")":
                self.i = j + 1
                return ("cast", " ".join(ty) + "*" * stars, self.unary())
        return self.postfix()

    def postfix(self):
        e = self.primary()
        while True:
            if self.accept("."):
                e = ("field", e, self.next()[1])
            elif self.accept("->"):
                e = ("arrow", e, self.next()[1])
            elif self.peek()[1] == "(" and e[0] == "id":
                self.next()
                args = []
                if e[1] == "OPERATION" or e[1] == "COMPARISON":
                    args.append(("optok", self.next()[1]))
                    self.expect(",")
                if not self.accept(")"):
                    while True:
                        args.append(self.expr())
                        if self.accept(")"):
                            break
                        self.expect(",")
                e = ("call", e[1], args)
            else:
                return e

    def primary(self):
        k, v = self.next()
        if k == "num":
            return ("num", int(re.sub(r"[uUlL]+$", "", v), 0))
        if k == "id":
            return ("id", v)
        if k == "dollar":
            return ("id", v)
        if k == "str":
            while self.peek()[0] == "str" or (self.peek()[0] == "id" and self.peek()[1].startswith("PRI")):
                self.next()
            return ("str", v)
        if k == "op" and v == "(":
            e = self.expr()
            self.expect(")")
            return e
        raise ParseError("unexpected token %r" % v)

    # ---- statements
    def block_items(self):
        items = []
        while self.peek()[0] != "eof" and self.peek()[1] != "}":
            items.append(self.stmt())
        return ("block", items)

    def stmt(self):
        k, v = self.peek()
        if v == "{":
            self.next()
            b = self.block_items()
            self.expect("}")
            return b
        if v == ";":
            self.next()
            return ("block", [])
        if v == "if":
            self.next()
            self.expect("(")
            c = self.expr()
            self.expect(")")
            t = self.stmt()
            e = ("block", [])
            if self.accept("else"):
                e = self.stmt()
            return ("if", c, t, e)
        if v == "break":
            self.next()
            self.expect(";")
            return ("break",)
        if v == "return":
            self.next()
            e = None
            if self.peek()[1] != ";":
                e = self.expr()
            self.expect(";")
            return ("return", e)
        # declaration:  type ident [= expr] ;
        if k == "id" and v in ("int", "int64_t", "uint64_t", "uint32_t", "int32_t", "size_t", "bool", "const", "uint8_t"):
            while self.peek()[0] == "id" and self.peek(1)[0] == "id" or self.peek()[1] == "*":
                self.next()
            name = self.next()[1]
            init = None
            if self.accept("="):
                init = self.expr()
            self.expect(";")
            return ("decl", name, init)
        e = self.expr()
        if self.peek()[1] in ("=",):
            self.next()
            r = self.expr()
            self.expect(";")
            return ("assign", e, r)
        self.accept(";")   # macros such as pop(r1) may lack the semicolon
        return ("expr", e)


def parse_expr(src):
    p = Parser(tokenize(src))
    e = p.expr()
    if p.peek()[0] != "eof":
        raise ParseError("trailing tokens after expression: %r" % (p.peek()[1],))
    return e


def parse_stmts(src):
    p = Parser(tokenize(src))
    b = p.block_items()
    if p.peek()[0] != "eof":
        raise ParseError("trailing tokens: %r" % (p.peek()[1],))
    return b


# ------------------------------------------------------------------ emission of expressions
BINOPS = {"+": "c_add", "-": "c_sub", "*": "c_mul", "/": "c_div", "%": "c_rem", "<<": "c_shl", ">>": "c_shr",
          "&": "c_band", "|": "c_bor", "^": "c_bxor", "<": "c_lt", ">": "c_gt", "<=": "c_le", ">=": "c_ge",
          "==": "c_eq", "!=": "c_ne", "&&": "c_land", "||": "c_lor"}
UNOPS = {"-": "c_neg", "~": "c_bnot", "!": "c_lnot", "+": ""}


def emit_expr(e, env):
    """env: maps C lvalue spellings ('i1', '$1.value.integer', 'r1.i', 'INT64_MAX', ...) to Gallina terms of type cres."""
    k = e[0]
    if k == "num":
        return "(CVal %d)" % e[1]
    sp = spelling(e)
    if sp is not None and sp in env:
        return env[sp]
    if k == "id":
        raise ParseError("unknown identifier %s" % e[1])
    if k == "bin":
        return "(%s %s %s)" % (BINOPS[e[1]], emit_expr(e[2], env), emit_expr(e[3], env))
    if k == "un":
        if e[1] == "+":
            return emit_expr(e[2], env)
        return "(%s %s)" % (UNOPS[e[1]], emit_expr(e[2], env))
    if k == "cond":
        return "(c_cond %s %s %s)" % (emit_expr(e[1], env), emit_expr(e[2], env), emit_expr(e[3], env))
    if k == "call":
        f, args = e[1], e[2]
        if f == "llabs" and len(args) == 1:
            return "(c_llabs %s)" % emit_expr(args[0], env)
        if f == "IS_UNDEFINED" and len(args) == 1:
            return "(c_is_undef %s)" % emit_expr(args[0], env)
        if f == "is_undef" and len(args) == 1:
            return "(c_is_undef %s)" % emit_expr(("field", args[0], "i"), env)
        if f == "OPERATION" and len(args) == 3:
            a, b = emit_expr(args[1], env), emit_expr(args[2], env)
            return "(c_cond (c_lor (c_is_undef %s) (c_is_undef %s)) (CVal YR_UNDEFINED) (%s %s %s))" % (
                a, b, BINOPS[args[0][1]], a, b)
        if f == "COMPARISON" and len(args) == 3:
            a, b = emit_expr(args[1], env), emit_expr(args[2], env)
            return "(c_cond (c_lor (c_is_undef %s) (c_is_undef %s)) (CVal 0) (%s %s %s))" % (
                a, b, BINOPS[args[0][1]], a, b)
        raise ParseError("unknown function %s/%d" % (f, len(args)))
    if k == "cast":
        return emit_expr(e[2], env)   # only value-preserving casts are accepted by the callers
    raise ParseError("cannot translate expression %r" % (e,))


def spelling(e):
    if e[0] == "id":
        return e[1]
    if e[0] == "field":
        b = spelling(e[1])
        return None if b is None else b + "." + e[2]
    if e[0] == "arrow":
        b = spelling(e[1])
        return None if b is None else b + "->" + e[2]
    return None


CMPS = {"<": "cb_lt", ">": "cb_gt", "<=": "cb_le", ">=": "cb_ge", "==": "cb_eq", "!=": "cb_ne"}


def emit_cond(e, env, t, f):
    """compile a C condition into nested (s_ifb atom then else) statements: short-circuit evaluation as control flow"""
    k = e[0]
    if k == "bin" and e[1] == "&&":
        return emit_cond(e[2], env, emit_cond(e[3], env, t, f), f)
    if k == "bin" and e[1] == "||":
        return emit_cond(e[2], env, t, emit_cond(e[3], env, t, f))
    if k == "un" and e[1] == "!":
        return emit_cond(e[2], env, f, t)
    if k == "num":
        return t if e[1] != 0 else f
    sp = spelling(e)
    if sp in ("true",):
        return t
    if sp in ("false",):
        return f
    return "(s_ifb (fun s : fstate => %s) %s %s)" % (emit_atom(e, env), t, f)


def emit_atom(e, env):
    k = e[0]
    if k == "bin" and e[1] in CMPS:
        return "(%s %s %s)" % (CMPS[e[1]], emit_expr(e[2], env), emit_expr(e[3], env))
    if k == "call" and e[1] == "IS_UNDEFINED" and len(e[2]) == 1:
        return "(cb_is_undef %s)" % emit_expr(e[2][0], env)
    if k == "call" and e[1] == "is_undef" and len(e[2]) == 1:
        return "(cb_is_undef %s)" % emit_expr(("field", e[2][0], "i"), env)
    return "(cb_nz %s)" % emit_expr(e, env)


def expand_macros(e):
    """OPERATION(op,a,b) / COMPARISON(op,a,b) are conditional expressions"""
    if e[0] == "call" and e[1] in ("OPERATION", "COMPARISON") and len(e[2]) == 3:
        c = ("bin", "||", ("call", "IS_UNDEFINED", [e[2][1]]), ("call", "IS_UNDEFINED", [e[2][2]]))
        u = ("id", "YR_UNDEFINED") if e[1] == "OPERATION" else ("num", 0)
        return ("cond", c, u, ("bin", e[2][0][1], e[2][1], e[2][2]))
    return e
