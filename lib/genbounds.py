"""GenBounds.v: the bounds predicates of the module parsers, translated from the source on every run
into Gallina over coq/Base/USem.v (unsigned arithmetic with explicit widths, pointers as 64-bit
addresses whose arithmetic wraps at 2^64).

Translated (property C06):
  include/yara/pe_utils.h   #define fits_in_pe(pe, pointer, size)           -> fits_in_pe
  include/yara/dex.h        #define fits_in_dex(dex, pointer, size)         -> fits_in_dex
  modules/elf/elf.c         static bool is_valid_ptr(base, size, ptr, n)    -> is_valid_ptr
  modules/macho/macho.c     the three guards at the head of both load-command loops of
                            macho_parse_file                               -> macho_cmd_ok_1/_2
                            the two guards of the fat-arch loop of
                            macho_parse_fat_file                           -> macho_fat_arch_ok
  modules/pe/pe.c           pe_parse_exports: the counts (number_of_exports, number_of_names), the guards of the
                            three parallel tables (ordinals, function_addrs, names) and, for every indexed
                            access to them, the bound its index is known to be below at that point
                                                                           -> exp_* (see _export_tables)
  modules/pe/pe_utils.c     the condition of the section loop of pe_rva_to_offset -> pe_rva_loop_cond
plus the constants the hand model Model/PeRva.v needs (evaluated by the C compiler).

The parser is lib/cexpr.py; the emitter below is typed (C's usual arithmetic conversions decide the
width at which every operation wraps).  Anything outside the subset raises
gen.GenError("translator cannot parse ...").

`sources()` also returns the exact source texts that were translated: checks/c06.py compiles THESE
texts into harness/h_bounds.c (tie: generated model == real text on generated operands)."""
import os, re
import gen, cexpr
from gen import GenError
import build


def _read(rel):
    p = os.path.join(build.REPO, rel)
    if not os.path.exists(p):
        raise GenError("translator cannot parse %s: file missing" % rel)
    return open(p, encoding="latin-1").read()


def strip_comments(s):
    s = re.sub(r"/\*.*?\*/", " ", s, flags=re.S)
    return re.sub(r"//[^\n]*", " ", s)


# ------------------------------------------------------------------ C types
PTR1 = ("ptr", 1)        # pointer to a byte-sized element
PTRV = ("ptr", None)     # void* / unknown element: comparison and casts only


def ctype_of(ts, what):
    """C type spelling -> model type"""
    t = re.sub(r"\bconst\b|\bvolatile\b", " ", ts)
    t = re.sub(r"\s+", " ", t).strip()
    t = t.replace(" *", "*")
    table = {"size_t": ("u", 64), "uint64_t": ("u", 64), "uint32_t": ("u", 32), "DWORD": ("u", 32), "uint16_t": ("u", 16),
             "WORD": ("u", 16), "uint8_t": ("u", 8), "unsigned": ("u", 32), "unsigned int": ("u", 32),
             "unsigned long": ("u", 64), "int": ("s", 32),
             "uint8_t*": PTR1, "char*": PTR1, "unsigned char*": PTR1, "BYTE*": PTR1, "void*": PTRV}
    if t not in table:
        raise GenError("translator cannot parse %s: type '%s' is outside the subset" % (what, ts.strip()))
    return table[t]


def struct_fields(txt, typedef_name, what):
    """field name -> C type spelling, for `typedef struct [tag] { ... } NAME;` (flat fields only)"""
    m = re.search(r"\}\s*%s\s*[;,]" % re.escape(typedef_name), txt)
    if not m:
        raise GenError("translator cannot parse %s: no typedef %s" % (what, typedef_name))
    j = m.start()
    depth = 0
    i = j
    while i >= 0:
        if txt[i] == "}":
            depth += 1
        elif txt[i] == "{":
            depth -= 1
            if depth == 0:
                break
        i -= 1
    if i < 0:
        raise GenError("translator cannot parse %s: unbalanced struct %s" % (what, typedef_name))
    body = strip_comments(txt[i + 1:j])
    fields = {}
    for stmt in body.split(";"):
        stmt = stmt.strip()
        if not stmt or "{" in stmt or "}" in stmt:
            continue
        mf = re.match(r"^(.*?)([A-Za-z_][A-Za-z_0-9]*)\s*(\[[^\]]*\])?$", stmt, re.S)
        if mf:
            fields[mf.group(2)] = mf.group(1).strip() + ("[]" if mf.group(3) else "")
    return fields


# ------------------------------------------------------------------ typed emitter over the cexpr AST
CMP = {"<": "u_lt", "<=": "u_le", ">": "u_gt", ">=": "u_ge", "==": "u_eq", "!=": "u_ne"}
ARI = {"+": "u_add", "-": "u_sub", "*": "u_mul"}


class UEmit:
    def __init__(self, env, sizeofs, consts, what):
        self.env = env          # C spelling -> (Gallina term, type)
        self.sizeofs = sizeofs  # type name -> int
        self.consts = consts    # macro name -> int
        self.what = what
        self.used_sizeofs = set()
        self.used_consts = set()

    def err(self, msg):
        raise GenError("translator cannot parse %s: %s" % (self.what, msg))

    # ---- values
    def val(self, e):
        k = e[0]
        if k == "num":
            return ("%d" % e[1], ("k", e[1]))
        sp = cexpr.spelling(e)
        if sp is not None and sp in self.env:
            return self.env[sp]
        if k == "id":
            if e[1] in self.consts:
                self.used_consts.add(e[1])
                return (e[1], ("k", self.consts[e[1]]))
            self.err("unknown identifier %s" % e[1])
        if k == "cast":
            ty = ctype_of(e[1], self.what)
            t, a = self.val(e[2])
            if ty[0] == "ptr":
                if a[0] == "ptr":
                    return (t, ty)          # pointer-to-pointer cast keeps the address
                if a == ("u", 64):
                    return ("(p_cast %s)" % t, ty)
                self.err("cast of a %r to a pointer" % (a,))
            if ty[0] == "u":
                if a[0] == "u" and a[1] < ty[1]:
                    return (t, ty)          # zero extension
                if a[0] in ("u", "k", "s", "pd"):
                    return ("(u_cast %d %s)" % (ty[1], t), ty)
                self.err("cast of a pointer to an integer")
            self.err("cast to %s" % e[1])
        if k == "call":
            f, args = e[1], e[2]
            if f == "sizeof" and len(args) == 1 and args[0][0] == "id":
                n = args[0][1]
                if n not in self.sizeofs:
                    self.err("sizeof(%s) could not be evaluated" % n)
                self.used_sizeofs.add(n)
                return ("sizeof_%s" % n, ("u", 64))
            if f in ("yr_le16toh", "yr_le32toh", "yr_le64toh") and len(args) == 1:
                return self.val(args[0])     # little-endian host (checked by the constants program)
            if f in ("yr_min", "yr_max") and len(args) == 2:
                (ta, a), (tb, b) = self.val(args[0]), self.val(args[1])
                ca, cb, ty = self.convert2(ta, a, tb, b, arith=False)
                lt = "(u_lt %s %s)" % ((ca, cb) if f == "yr_min" else (cb, ca))
                # yr_min(x,y) = ((x) < (y)) ? (x) : (y) ; the result has the common type
                return ("(if %s then %s else %s)" % (lt, ca, cb), ty)
            self.err("call of %s/%d" % (f, len(args)))
        if k == "bin" and e[1] in ARI:
            (ta, a), (tb, b) = self.val(e[2]), self.val(e[3])
            if a[0] == "ptr" and b[0] == "ptr" and e[1] == "-":
                if a[1] != 1 or b[1] != 1:
                    self.err("difference of pointers whose element size is not 1")
                # ptrdiff_t: only its 64-bit pattern is modelled, usable where it is converted to a 64-bit unsigned
                return ("(u_sub 64 %s %s)" % (ta, tb), ("pd", 64))
            if a[0] == "ptr" or b[0] == "ptr":
                if b[0] == "ptr" and a[0] != "ptr" and e[1] == "+":
                    ta, a, tb, b = tb, b, ta, a
                if a[0] != "ptr" or b[0] == "ptr" or e[1] == "*":
                    self.err("pointer arithmetic %s between %r and %r" % (e[1], a, b))
                if a[1] != 1:
                    self.err("arithmetic on a pointer whose element size is not 1")
                if b[0] == "k":
                    if b[1] < 0:
                        self.err("negative pointer offset")
                elif b[0] != "u":
                    self.err("pointer offset of type %r" % (b,))
                return ("(%s 1 %s %s)" % ("p_add" if e[1] == "+" else "p_sub", ta, tb), a)
            ca, cb, ty = self.convert2(ta, a, tb, b, arith=True)
            if ty[0] == "k":
                v = {"+": a[1] + b[1], "-": a[1] - b[1], "*": a[1] * b[1]}[e[1]]
                if not (-2 ** 31 <= v < 2 ** 31):
                    self.err("int constant expression overflows")
                return ("(%s)" % v, ("k", v))
            return ("(%s %d %s %s)" % (ARI[e[1]], ty[1], ca, cb), ty)
        if k == "un" and e[1] == "+":
            return self.val(e[2])
        self.err("expression %r" % (e,))

    def convert2(self, ta, a, tb, b, arith):
        """usual arithmetic conversions; returns converted terms and the common type"""
        if a[0] == "ptr" or b[0] == "ptr":
            self.err("integer operation on a pointer")
        if a[0] == "k" and b[0] == "k":
            return ta, tb, ("k", None)
        if a[0] == "pd" or b[0] == "pd":
            o = b if a[0] == "pd" else a
            if o != ("u", 64) and o[0] != "pd":
                self.err("a pointer difference (ptrdiff_t) used with %r: signed arithmetic is not modelled" % (o,))
            return ta, tb, ("u", 64)
        # integer promotion: unsigned narrower than int, int constants and int variables are `int`
        def rank(t):
            if t[0] == "u" and t[1] >= 32:
                return t[1]
            return 0     # int
        ra, rb = rank(a), rank(b)
        w = max(ra, rb)
        if w == 0:
            if arith:
                self.err("arithmetic in (signed) int between %r and %r is not modelled" % (a, b))
            return ta, tb, ("s", 32)      # comparison / selection of int-ranged values: by value
        def conv(t, ty):
            if ty[0] == "k":
                if ty[1] < 0:
                    return "(u_cast %d (%d))" % (w, ty[1])
                return t
            if ty[0] == "s":
                return "(u_cast %d %s)" % (w, t)     # a negative int converts modulo 2^w
            return t                                   # narrower unsigned: zero extension
        return conv(ta, a), conv(tb, b), ("u", w)

    # ---- conditions
    def cond(self, e):
        k = e[0]
        if k == "bin" and e[1] == "&&":
            return "(if %s then %s else false)" % (self.cond(e[2]), self.cond(e[3]))
        if k == "bin" and e[1] == "||":
            return "(if %s then true else %s)" % (self.cond(e[2]), self.cond(e[3]))
        if k == "un" and e[1] == "!":
            return "(negb %s)" % self.cond(e[2])
        if k == "bin" and e[1] in CMP:
            (ta, a), (tb, b) = self.val(e[2]), self.val(e[3])
            if a[0] == "ptr" and b[0] == "ptr":
                return "(%s %s %s)" % (CMP[e[1]], ta, tb)
            if a[0] == "ptr" or b[0] == "ptr":
                self.err("comparison of a pointer with an integer")
            ca, cb, ty = self.convert2(ta, a, tb, b, arith=False)
            return "(%s %s %s)" % (CMP[e[1]], ca, cb)
        self.err("condition %r" % (e,))


# ------------------------------------------------------------------ cutting the sources
def macro_def(txt, name, what):
    m = re.search(r"^[ \t]*#[ \t]*define[ \t]+%s\(([^)]*)\)((?:[^\n]*\\\n)*[^\n]*)" % re.escape(name), txt, re.M)
    if not m:
        raise GenError("translator cannot parse %s: no #define %s(...)" % (what, name))
    params = [p.strip() for p in m.group(1).split(",")]
    body = m.group(2).replace("\\\n", " ")
    return params, body.strip(), m.group(0)


def function_def(txt, name, what):
    txt = strip_comments(txt)
    m = re.search(r"^[ \t]*((?:static\s+)?[A-Za-z_][A-Za-z_0-9 \*]*?)\b%s\s*\(([^)]*)\)\s*\{" % re.escape(name), txt, re.M)
    if not m:
        raise GenError("translator cannot parse %s: no function %s" % (what, name))
    import genfold
    i = m.end() - 1
    j = genfold.match_brace(txt, i)
    params = []
    for p in strip_comments(m.group(2)).split(","):
        p = p.strip()
        mp = re.match(r"^(.*?)([A-Za-z_][A-Za-z_0-9]*)$", p, re.S)
        if not mp:
            raise GenError("translator cannot parse %s: parameter '%s'" % (what, p))
        params.append((mp.group(2), mp.group(1).strip()))
    return params, txt[i + 1:j - 1], txt[m.start():j]


def parse_expr(src, what):
    try:
        return cexpr.parse_expr(src)
    except cexpr.ParseError as e:
        raise GenError("translator cannot parse %s: %s" % (what, e))


def parse_stmts(src, what):
    try:
        return cexpr.parse_stmts(src)
    except cexpr.ParseError as e:
        raise GenError("translator cannot parse %s: %s" % (what, e))


SIZEOF_TYPES = ["IMAGE_SECTION_HEADER", "IMAGE_DATA_DIRECTORY", "IMAGE_NT_HEADERS32", "yr_load_command_t", "yr_mach_header_64_t",
                "yr_mach_header_32_t", "yr_fat_header_t", "yr_fat_arch_64_t", "yr_fat_arch_32_t", "dex_header_t", "WORD", "DWORD", "elf32_header_t", "elf64_header_t"]
CONST_MACROS = ["MAX_PE_SECTIONS", "PE_PAGE_SIZE", "PE_SECTOR_SIZE"]


def eval_constants():
    prog = ['#include <stdio.h>\n#include <stddef.h>\n#include <yara/pe.h>\n#include <yara/pe_utils.h>\n'
            '#include <yara/dex.h>\n#include <yara/macho.h>\n#include <yara/elf.h>\n#include <yara/endian.h>\nint main(){\n']
    for t in SIZEOF_TYPES:
        prog.append('printf("sizeof_%s %%zu\\n", sizeof(%s));\n' % (t, t))
    for c in CONST_MACROS:
        prog.append('printf("%s %%lld\\n", (long long)(%s));\n' % (c, c))
    prog.append('printf("off_nt_optional_header %zu\\n", offsetof(IMAGE_NT_HEADERS32, OptionalHeader));\n')
    prog.append('printf("le16_identity %d\\n", (int)(yr_le16toh(0x1234) == 0x1234 && yr_le32toh(0x12345678) == 0x12345678));\n')
    prog.append('printf("sizeof_size_t %zu\\nsizeof_ptr %zu\\nsizeof_int %zu\\n", sizeof(size_t), sizeof(void*), sizeof(int));\n')
    prog.append("return 0;}\n")
    out, err = gen._compile_run("".join(prog))
    if out is None:
        raise GenError("translator cannot parse module headers (constants program does not compile): " + err[:600])
    d = {}
    for line in out.strip().split("\n"):
        k, v = line.split()
        d[k] = int(v)
    if d["le16_identity"] != 1 or d["sizeof_size_t"] != 8 or d["sizeof_ptr"] != 8 or d["sizeof_int"] != 4:
        raise GenError("translator cannot parse: host is not little-endian LP64, the width model does not apply")
    return d


def _buffer_macro(hdr_rel, macro, struct_name, what):
    """fits_in_pe / fits_in_dex: (pe, pointer, size) with pe->data, pe->data_size"""
    txt = _read(hdr_rel)
    params, body, text = macro_def(txt, macro, what)
    if len(params) != 3:
        raise GenError("translator cannot parse %s: expected 3 macro parameters, found %r" % (what, params))
    fields = struct_fields(txt, struct_name, what)
    for f in ("data", "data_size"):
        if f not in fields:
            raise GenError("translator cannot parse %s: struct %s has no field %s" % (what, struct_name, f))
    obj, ptr, size = params
    env = {obj + "->data": ("data", ctype_of(fields["data"], what)),
           obj + "->data_size": ("data_size", ctype_of(fields["data_size"], what)),
           # the macro's `pointer` argument is any pointer: a raw 64-bit address, every use is cast
           ptr: ("pointer", PTRV),
           # the `size` argument: any integer expression; modelled as the value after conversion to size_t
           # (for every unsigned argument type that is the argument's value; for a negative signed
           # argument the first conjunct is false whatever the other uses do)
           size: ("size", ("u", 64))}
    return env, parse_expr(body, what), text


def _guards(items, what, skip_calls, stop="break"):
    """[if (c) break;]* interleaved with ignorable statements -> list of condition ASTs"""
    conds = []
    for s in items:
        if s[0] == "if" and s[2] in ((stop,), ("block", [(stop,)])) and s[3] == ("block", []):
            conds.append(s[1])
        elif s[0] == "expr" and s[1][0] == "call" and s[1][1] in skip_calls:
            continue
        elif s[0] == "if" and s[3] == ("block", []) and s[2][0] == "expr" and s[2][1][0] == "call" and s[2][1][1] in skip_calls:
            continue      # if (should_swap) swap_xxx(&copy);  acts on the local copy
        else:
            raise GenError("translator cannot parse %s: unexpected statement %r" % (what, s[:2]))
    return conds


def _decl_type(body, name, what):
    m = re.search(r"(?:^|[;{(,])\s*((?:const\s+)?[A-Za-z_][A-Za-z_0-9]*\s*\**)\s*\b%s\b\s*(?:=|;|,|\))" % re.escape(name), body)
    if not m:
        raise GenError("translator cannot parse %s: no declaration of %s" % (what, name))
    return m.group(1)


# ------------------------------------------------------------------ pe_parse_exports: guards vs. indexed accesses
def _split_and(cond):
    """top-level conjuncts of a C condition text"""
    parts, depth, cur, i = [], 0, "", 0
    while i < len(cond):
        c = cond[i]
        if c in "([":
            depth += 1
        elif c in ")]":
            depth -= 1
        if depth == 0 and cond.startswith("&&", i):
            parts.append(cur.strip())
            cur = ""
            i += 2
            continue
        if depth == 0 and cond.startswith("||", i):
            raise GenError("translator cannot parse pe_parse_exports: `||` in the look-up condition")
        cur += c
        i += 1
    parts.append(cur.strip())
    return parts


def _paren_end(txt, i):
    """txt[i] == '(' -> index after the matching ')'"""
    depth = 0
    while i < len(txt):
        depth += {"(": 1, ")": -1}.get(txt[i], 0)
        i += 1
        if depth == 0:
            return i
    raise GenError("translator cannot parse pe_parse_exports: unbalanced parentheses")


def _export_tables(sizeofs, consts, out, src):
    import genfold
    what = "pe_parse_exports (modules/pe/pe.c)"
    ptxt = _read("libyara/modules/pe/pe.c")
    m = re.search(r"^\s*#\s*define\s+MAX_PE_EXPORTS\s+(\d+)\s*$", ptxt, re.M)
    if not m:
        raise GenError("translator cannot parse %s: MAX_PE_EXPORTS is not a plain number" % what)
    consts = dict(consts, MAX_PE_EXPORTS=int(m.group(1)))
    _, fbody, _ = function_def(ptxt, "pe_parse_exports", what)
    fb = strip_comments(fbody)
    U32 = ("u", 32)
    for v in ("number_of_exports", "number_of_names"):
        if _decl_type(fb, v, what).strip() != "uint32_t":
            raise GenError("translator cannot parse %s: %s is no longer a uint32_t" % (what, v))
    for v, ty in (("ordinals", "WORD*"), ("function_addrs", "DWORD*"), ("names", "DWORD*")):
        if re.sub(r"\s+", "", _decl_type(fb, v, what)) != ty:
            raise GenError("translator cannot parse %s: %s is no longer a %s" % (what, v, ty))
    ef = struct_fields(_read("libyara/include/yara/pe.h"), "IMAGE_EXPORT_DIRECTORY", what)
    for f in ("NumberOfFunctions", "NumberOfNames"):
        if ef.get(f, "").strip() != "DWORD":
            raise GenError("translator cannot parse %s: IMAGE_EXPORT_DIRECTORY.%s is not a DWORD" % (what, f))

    def assignment(var):
        ms = list(re.finditer(r"\b%s\s*=\s*([^;]*);" % var, fb))
        ms = [x for x in ms if not fb[:x.start()].rstrip().endswith(("uint32_t", ","))]
        if len(ms) != 1:
            raise GenError("translator cannot parse %s: expected one assignment to %s, found %d" % (what, var, len(ms)))
        return re.sub(r"\s+", " ", ms[0].group(1)).strip(), ms[0].start()

    env = {"exports->NumberOfFunctions": ("nfun_raw", U32), "exports->NumberOfNames": ("nn_raw", U32),
           "number_of_exports": ("nexp", U32), "number_of_names": ("nnames", U32), "avail": ("avail", ("u", 64))}
    em = UEmit(env, sizeofs, consts, what)
    t_nexp, _ = assignment("number_of_exports")
    t_nn, _ = assignment("number_of_names")
    out.append("\n(* ---- pe_parse_exports (modules/pe/pe.c): counts, table guards, index bounds of the indexed accesses *)\n")
    out.append("Definition MAX_PE_EXPORTS : Z := %d.\n" % consts["MAX_PE_EXPORTS"])
    out.append("(* number_of_exports = %s *)\nDefinition exp_number_of_exports (nfun_raw : Z) : Z :=\n  %s.\n"
               % (t_nexp, em.val(parse_expr(t_nexp, what))[0]))
    out.append("(* number_of_names = %s *)\nDefinition exp_number_of_names (nexp nn_raw : Z) : Z :=\n  %s.\n"
               % (t_nn, em.val(parse_expr(t_nn, what))[0]))
    src["exp_number_of_exports"], src["exp_number_of_names"] = t_nexp, t_nn
    src["MAX_PE_EXPORTS"] = consts["MAX_PE_EXPORTS"]
    # guards.  available_space(pe, T) is the number of bytes from T to the end of the data (0 when T is outside): `avail`
    guards = {}
    for tbl in ("ordinals", "function_addrs"):
        ms = list(re.finditer(r"if\s*\(\s*(available_space\s*\(\s*pe\s*,\s*%s\s*\)\s*<[^;{}]*?)\)\s*return\s*;" % tbl, fb))
        if len(ms) != 1:
            raise GenError("translator cannot parse %s: expected one `if (available_space(pe, %s) < ...) return;`, found %d" % (what, tbl, len(ms)))
        g = re.sub(r"\s+", " ", ms[0].group(1)).strip()
        guards[tbl] = (re.sub(r"available_space\s*\(\s*pe\s*,\s*%s\s*\)" % tbl, "avail", g), ms[0].start())
    ms = list(re.finditer(r"if\s*\(\s*([^;{}]*?NumberOfNames[^;{}]*?>\s*pe->data_size\s*-\s*offset)\s*\)\s*return\s*;", fb))
    if len(ms) != 1:
        raise GenError("translator cannot parse %s: expected one `if (... NumberOfNames ... > pe->data_size - offset) return;`, found %d" % (what, len(ms)))
    g = re.sub(r"\s+", " ", ms[0].group(1)).strip()
    guards["names"] = (re.sub(r"pe->data_size\s*-\s*offset", "avail", g), ms[0].start())
    if not re.search(r"names\s*=\s*\(\s*DWORD\s*\*\s*\)\s*\(\s*pe->data\s*\+\s*offset\s*\)\s*;", fb[ms[0].end():ms[0].end() + 200]):
        raise GenError("translator cannot parse %s: names is no longer pe->data + offset right after its guard" % what)
    for tbl, nm in (("ordinals", "ordinals"), ("function_addrs", "functions"), ("names", "names")):
        out.append("(* rejected when: %s   [avail = bytes from %s to the end of the data] *)\n"
                   "Definition exp_%s_rejects (avail nexp nnames nn_raw : Z) : bool :=\n  %s.\n"
                   % (guards[tbl][0], tbl, nm, em.cond(parse_expr(guards[tbl][0], what))))
        src["exp_%s_rejects" % nm] = guards[tbl][0]
    # indexed accesses: all of them must be inside the export loop, after the guards
    lm = list(re.finditer(r"for\s*\(\s*i\s*=\s*0\s*;\s*i\s*<\s*(\w+)\s*;\s*i\+\+\s*\)\s*\{", fb))
    if len(lm) != 1:
        raise GenError("translator cannot parse %s: expected one `for (i = 0; i < N; i++)` loop, found %d" % (what, len(lm)))
    ob = lm[0].end() - 1
    oe = genfold.match_brace(fb, ob)
    obody = fb[ob + 1:oe - 1]
    if lm[0].start() < max(p for _, p in guards.values()):
        raise GenError("translator cannot parse %s: the export loop precedes a table guard" % what)
    for tbl in ("ordinals", "function_addrs", "names"):
        if re.search(r"\b%s\s*\[" % tbl, fb[:ob]) or re.search(r"\b%s\s*\[" % tbl, fb[oe:]):
            raise GenError("translator cannot parse %s: %s is indexed outside the export loop" % (what, tbl))
    known = {"number_of_exports": "nexp", "number_of_names": "nnames"}

    def bound_of(names_):
        t = None
        for n in names_:
            if n not in known:
                raise GenError("translator cannot parse %s: loop/condition bound `%s` is not one of the export counts" % (what, n))
            t = known[n] if t is None else "(Z.min %s %s)" % (t, known[n])
        return t
    i_bounds = [lm[0].group(1)]
    jm = list(re.finditer(r"for\s*\(\s*j\s*=\s*0\s*;\s*j\s*<\s*(\w+)\s*;\s*j\+\+\s*\)\s*\{", obody))
    if len(jm) != 1:
        raise GenError("translator cannot parse %s: expected one `for (j = 0; j < N; j++)` loop, found %d" % (what, len(jm)))
    jb = jm[0].end() - 1
    je = genfold.match_brace(obody, jb)
    jbody = obody[jb + 1:je - 1]
    outside_j = obody[:jm[0].start()] + obody[je:]
    idx = {"ordinals": [], "function_addrs": [], "names": []}
    for tbl in idx:
        for a in re.finditer(r"\b%s\s*\[\s*([^\]]*?)\s*\]" % tbl, outside_j):
            if a.group(1) != "i":
                raise GenError("translator cannot parse %s: access %s[%s] outside the inner loop" % (what, tbl, a.group(1)))
            idx[tbl].append(list(i_bounds))
    # inner loop: `if (COND) {BODY}` ; an access inside COND is only protected by the conjuncts to its left
    im = re.match(r"\s*if\s*\(", jbody)
    if not im:
        raise GenError("translator cannot parse %s: the inner loop does not start with an if" % what)
    ce = _paren_end(jbody, im.end() - 1)
    cond = jbody[im.end():ce - 1]
    rest = jbody[ce:]
    conj = _split_and(cond)
    j_bounds = [jm[0].group(1)]
    left = []
    for c in conj:
        for tbl in idx:
            for a in re.finditer(r"\b%s\s*\[\s*([^\]]*?)\s*\]" % tbl, c):
                if a.group(1) != "j":
                    raise GenError("translator cannot parse %s: access %s[%s] in the look-up condition" % (what, tbl, a.group(1)))
                idx[tbl].append(j_bounds + list(left))
        b = re.fullmatch(r"j\s*<\s*(\w+)", c)
        if b:
            left.append(b.group(1))
    for tbl in idx:
        for a in re.finditer(r"\b%s\s*\[\s*([^\]]*?)\s*\]" % tbl, rest):
            if a.group(1) != "j":
                raise GenError("translator cannot parse %s: access %s[%s] in the look-up body" % (what, tbl, a.group(1)))
            idx[tbl].append(j_bounds + list(left))
    src["exp_accesses"] = {k: v for k, v in idx.items()}
    for tbl, nm in (("ordinals", "ordinals"), ("function_addrs", "functions"), ("names", "names")):
        if not idx[tbl]:
            raise GenError("translator cannot parse %s: no indexed access to %s found" % (what, tbl))
        # every access must be inside: the weakest protection decides
        terms = [bound_of(bs) for bs in idx[tbl]]
        t = terms[0]
        for x in terms[1:]:
            t = "(Z.max %s %s)" % (t, x)
        out.append("(* %s[index] is evaluated at %d place(s); the index is known to be below: %s *)\n"
                   "Definition exp_%s_index_bound (nexp nnames : Z) : Z := %s.\n"
                   % (tbl, len(idx[tbl]), " | ".join(" and ".join(bs) for bs in idx[tbl]), nm, t))

# ------------------------------------------------------------------ dotnet.c: recursion guards
def _split_args(txt):
    args, depth, cur = [], 0, ""
    for c in txt:
        if c in "([{":
            depth += 1
        elif c in ")]}":
            depth -= 1
        if c == "," and depth == 0:
            args.append(cur.strip())
            cur = ""
        else:
            cur += c
    args.append(cur.strip())
    return args


def _dotnet_depth(out, src):
    """The functions of dotnet.c that carry a `depth` parameter against loops: which of them test it against a limit before
    doing anything else, and for every call between them what is passed as depth (`depth` or `depth + 1`)."""
    what = "recursion guards (modules/dotnet/dotnet.c)"
    txt = strip_comments(_read("libyara/modules/dotnet/dotnet.c"))
    names = []
    for m in re.finditer(r"\b([A-Za-z_]\w*)\s*\(([^;{}()]*\buint32_t\s+depth\s*)\)\s*\{", txt):
        if m.group(1) not in names:
            names.append(m.group(1))
    if not names:
        raise GenError("translator cannot parse %s: no function with a `uint32_t depth` parameter" % what)
    funcs = {}
    for n in names:
        params, body, _ = function_def(_read("libyara/modules/dotnet/dotnet.c"), n, what)
        body = strip_comments(body)
        if [p for p, _ in params][-1] != "depth":
            raise GenError("translator cannot parse %s: depth is not the last parameter of %s" % (what, n))
        if re.search(r"\bdepth\s*(=[^=]|\+\+|--|\+=|-=)|(\+\+|--)\s*depth|&\s*depth\b", body):
            raise GenError("translator cannot parse %s: %s modifies depth" % (what, n))
        funcs[n] = body
    calls, guards = [], {}
    for n in names:
        body = funcs[n]
        first_call = len(body)
        for g in names:
            for m in re.finditer(r"\b%s\s*\(" % re.escape(g), body):
                e = _paren_end(body, m.end() - 1)
                args = _split_args(body[m.end():e - 1])
                a = re.sub(r"\s+", "", args[-1])
                if a == "depth":
                    d = 0
                elif a in ("depth+1", "1+depth"):
                    d = 1
                elif re.fullmatch(r"\d+", a):
                    d = -1      # a constant: the callee starts a count of its own; such a call must not lie on a cycle
                else:
                    raise GenError("translator cannot parse %s: %s calls %s with depth argument `%s`" % (what, n, g, args[-1]))
                calls.append((n, g, d))
                first_call = min(first_call, m.start())
        gm = re.search(r"if\s*\(([^{};]*?\bdepth\s*>\s*(MAX_\w+)[^{};]*?)\)\s*(?:\{\s*)?return\b", body)
        if gm and gm.start() < first_call:
            cond = gm.group(1)
            # the limit must be one disjunct of the condition: `a || b || depth > MAX`
            if "&&" in cond:
                raise GenError("translator cannot parse %s: the depth test of %s is under a conjunction" % (what, n))
            guards[n] = gm.group(2)
    limits = {}
    hdr = _read("libyara/include/yara/dotnet.h") + "\n" + _read("libyara/modules/dotnet/dotnet.c")
    for lim in set(guards.values()):
        m = re.search(r"^\s*#\s*define\s+%s\s+(\d+|0[xX][0-9a-fA-F]+)\s*$" % lim, hdr, re.M)
        if not m:
            raise GenError("translator cannot parse %s: %s is not a plain number" % (what, lim))
        limits[lim] = int(m.group(1), 0)
    ids = {n: i for i, n in enumerate(names)}

    def ranks(edges):
        """longest-path rank in the graph of `edges` (callee below caller); None when it has a cycle"""
        r = {n: 0 for n in names}
        for _ in range(len(names) + 1):
            changed = False
            for f, g in edges:
                if r[f] < r[g] + 1:
                    r[f] = r[g] + 1
                    changed = True
            if not changed:
                return r
        return None
    zr = ranks([(f, g) for f, g, d in calls if d == 0])
    ur = ranks([(f, g) for f, g, d in calls if f not in guards and g not in guards])
    reach = {n: {n} for n in names}
    for _ in range(len(names) + 1):
        for f, g, d in calls:
            reach[f] |= reach[g]
    sr = {n: len(reach[n]) for n in names}
    out.append("\n(* ---- dotnet.c: the functions that carry a `depth` parameter against loops\n")
    for n in names:
        out.append("   %d = %s%s\n" % (ids[n], n, "   returns when depth > %s = %d, before any call" % (guards[n], limits[guards[n]]) if n in guards else "   (no test of its own)"))
    out.append("   calls (caller, callee, what is added to depth; -1: a constant is passed, the callee counts afresh): *)\n")
    out.append("Definition dotnet_depth_guarded : list bool := [%s].\n" % "; ".join("true" if n in guards else "false" for n in names))
    out.append("Definition dotnet_depth_limits : list Z := [%s].\n" % "; ".join(str(limits[guards[n]]) if n in guards else "0" for n in names))
    out.append("Definition dotnet_depth_calls : list (nat * nat * Z) := [%s].\n" % "; ".join("(%d%%nat, %d%%nat, %d)" % (ids[f], ids[g], d) for f, g, d in calls))
    out.append("(* certificates computed by the translator (checked in Coq): a rank that decreases along every call that passes depth\n"
               "   unchanged, and one that decreases along every call between two functions without a test *)\n")
    out.append("Definition dotnet_zero_rank : list nat := [%s].\n" % "; ".join("%d%%nat" % (zr or {n: 0 for n in names})[n] for n in names))
    out.append("Definition dotnet_unguarded_rank : list nat := [%s].\n" % "; ".join("%d%%nat" % (ur or {n: 0 for n in names})[n] for n in names))
    out.append("(* and one that never increases along a call and decreases where a constant is passed *)\n")
    out.append("Definition dotnet_reset_rank : list nat := [%s].\n" % "; ".join("%d%%nat" % sr[n] for n in names))
    src["dotnet_depth"] = {"functions": names, "guards": guards, "calls": calls}

# ------------------------------------------------------------------ elf.c module_load: header size guards
def _elf_header_guards(sizeofs, out, src):
    """each branch of module_load: which (class, data) it is for, the size it demands of the block, the header type it casts the
    block to and the parser it calls (PARSE_ELF_HEADER(bits, bo) takes an elf<bits>_header_t)"""
    what = "module_load (modules/elf/elf.c)"
    etxt = _read("libyara/modules/elf/elf.c")
    _, fbody, _ = function_def(etxt, "module_load", what)
    fb = strip_comments(fbody)
    if not re.search(r"#\s*define\s+PARSE_ELF_HEADER\s*\(\s*bits\s*,\s*bo\s*\)\s*\\\s*\n\s*int\s+parse_elf_header_##bits##_##bo\s*\(\s*\\\s*\n\s*ELF\s*\*\s*elf_data\s*,\s*\\\s*\n\s*elf##bits##_header_t\s*\*\s*elf\s*,", etxt):
        raise GenError("translator cannot parse %s: PARSE_ELF_HEADER(bits, bo) no longer takes an elf##bits##_header_t* as second parameter" % what)
    hdr = _read("libyara/include/yara/elf.h")
    consts = {}
    for n in ("ELF_CLASS_32", "ELF_CLASS_64", "ELF_DATA_2LSB", "ELF_DATA_2MSB"):
        m = re.search(r"^\s*#\s*define\s+%s\s+(0[xX][0-9a-fA-F]+|\d+)" % n, hdr, re.M)
        if not m:
            raise GenError("translator cannot parse %s: %s is not a plain number" % (what, n))
        consts[n] = int(m.group(1), 0)
    branches = list(re.finditer(r"class_data\s*==\s*CLASS_DATA\s*\(\s*(ELF_CLASS_\d+)\s*,\s*(ELF_DATA_2[LM]SB)\s*\)\s*&&\s*block->size\s*>\s*sizeof\s*\(\s*(\w+)\s*\)\s*\)\s*\{", fb))
    calls = len(re.findall(r"\bparse_elf_header_\d+_\w+\s*\(", fb))
    if len(branches) != 4 or calls != 4 or len(re.findall(r"class_data\s*==", fb)) != 4:
        raise GenError("translator cannot parse %s: expected 4 branches `class_data == CLASS_DATA(c, d) && block->size > sizeof(T)` each calling one parser, found %d / %d calls"
                       % (what, len(branches), calls))
    import genfold
    rows = []
    for b in branches:
        i = b.end() - 1
        body = fb[i + 1:genfold.match_brace(fb, i) - 1]
        cm = re.search(r"(\w+)\s*=\s*\(\s*(\w+)\s*\*\s*\)\s*block_data\s*;", body)
        pm = re.findall(r"\bparse_elf_header_(\d+)_(le|be)\s*\(\s*elf\s*,\s*(\w+)\s*,", body)
        if not cm or len(pm) != 1 or pm[0][2] != cm.group(1):
            raise GenError("translator cannot parse %s: branch for %s/%s does not cast block_data to one header and pass it to one parser" % (what, b.group(1), b.group(2)))
        gt, ct = b.group(3), cm.group(2)
        for t in (gt, ct):
            if t not in sizeofs:
                raise GenError("translator cannot parse %s: sizeof(%s) is not known" % (what, t))
        bits, bo = int(pm[0][0]), pm[0][1]
        rows.append((consts[b.group(1)], consts[b.group(2)], sizeofs[gt], sizeofs[ct], sizeofs["elf%d_header_t" % bits], bits, 1 if bo == "be" else 0,
                     "%s/%s: block->size > sizeof(%s); (%s*) block_data; parse_elf_header_%d_%s" % (b.group(1), b.group(2), gt, ct, bits, bo)))
    out.append("\n(* ---- elf.c module_load: (class, data, size demanded of the block, size of the type block_data is cast to,\n"
               "        size of the header type of the parser called, bits of that parser, 1 = big-endian parser)\n")
    for r in rows:
        out.append("   %s\n" % r[7].replace("*)", "* )"))
    out.append("*)\nDefinition ELF_CLASS_32 : Z := %d.\nDefinition ELF_CLASS_64 : Z := %d.\nDefinition ELF_DATA_2LSB : Z := %d.\nDefinition ELF_DATA_2MSB : Z := %d.\n"
               % (consts["ELF_CLASS_32"], consts["ELF_CLASS_64"], consts["ELF_DATA_2LSB"], consts["ELF_DATA_2MSB"]))
    out.append("Definition elf_header_branches : list (Z * Z * Z * Z * Z * Z * Z) := [%s].\n"
               % "; ".join("(%d, %d, %d, %d, %d, %d, %d)" % r[:7] for r in rows))
    src["elf_header_branches"] = [r[7] for r in rows]

# ------------------------------------------------------------------ object.c: growth of the dictionary storage
def _int_term(e, env, what):
    """+ - * over int variables and literals, as unbounded integers (the theorem states the range in which C's int does not overflow)"""
    k = e[0]
    if k == "num":
        return "%d" % e[1]
    sp = cexpr.spelling(e)
    if sp is not None and sp in env:
        return env[sp]
    if k == "bin" and e[1] in ("+", "-", "*"):
        return "(%s %s %s)" % (_int_term(e[2], env, what), e[1], _int_term(e[3], env, what))
    raise GenError("translator cannot parse %s: expression %r" % (what, e))


def _dict_growth(out, src):
    what = "yr_object_dict_set_item (object.c)"
    _, body, _ = function_def(_read("libyara/object.c"), "yr_object_dict_set_item", what)
    b = strip_comments(body)
    m0 = re.search(r"if\s*\(\s*dict->items\s*==\s*NULL\s*\)\s*\{\s*count\s*=\s*([^;]+);(.*?)\}\s*else\s+if\s*\(\s*dict->items->free\s*==\s*0\s*\)\s*\{\s*count\s*=\s*([^;]+);(.*?)\n  \}", b, re.S)
    if not m0:
        raise GenError("translator cannot parse %s: expected `if (dict->items == NULL) { count = ..; .. } else if (dict->items->free == 0) { count = ..; .. }`" % what)
    init_body, grow_body = m0.group(2), m0.group(4)
    if not re.search(r"dict->items->free\s*=\s*count\s*;\s*dict->items->used\s*=\s*0\s*;", init_body):
        raise GenError("translator cannot parse %s: the first allocation no longer sets free = count; used = 0" % what)
    fm = re.findall(r"dict->items->free\s*=\s*([^;]+);", grow_body)
    if len(fm) != 1 or re.search(r"dict->items->used\s*=[^=]", grow_body):
        raise GenError("translator cannot parse %s: the growth branch must assign free once and leave used alone" % what)
    for cnt in (m0.group(1), m0.group(3)):
        pass
    if not re.search(r"count\s*\*\s*sizeof\s*\(\s*dict->items->objects\[0\]\s*\)", init_body) or \
       not re.search(r"count\s*\*\s*sizeof\s*\(\s*dict->items->objects\[0\]\s*\)", grow_body):
        raise GenError("translator cannot parse %s: the block is no longer sized `count * sizeof(objects[0])`" % what)
    tail = b[m0.end():]
    if not re.search(r"dict->items->objects\[dict->items->used\]\.obj\s*=\s*item\s*;\s*dict->items->used\+\+\s*;\s*dict->items->free--\s*;", tail):
        raise GenError("translator cannot parse %s: an insertion no longer writes objects[used] and then does used++, free--" % what)
    env = {"dict->items->used": "used", "dict->items->free": "free", "count": "count"}
    out.append("\n(* ---- object.c yr_object_dict_set_item: capacity of the block and the free counter\n"
               "   first insertion: count = %s; free = count; used = 0\n   full (free == 0): count = %s; free = %s\n"
               "   every insertion: objects[used] = item; used++; free-- *)\n" % (m0.group(1).strip(), m0.group(3).strip(), fm[0].strip()))
    out.append("Definition dict_initial_count : Z := %s.\n" % _int_term(parse_expr(m0.group(1), what), {}, what))
    out.append("Definition dict_grow (used : Z) : Z := %s.\n" % _int_term(parse_expr(m0.group(3), what), env, what))
    out.append("Definition dict_free_after_grow (used count : Z) : Z := %s.\n" % _int_term(parse_expr(fm[0], what), env, what))
    src["dict_growth"] = [m0.group(1).strip(), m0.group(3).strip(), fm[0].strip()]


def translate():
    """returns (text of GenBounds.v, dict of translated source texts for the harness tie)"""
    K = eval_constants()
    sizeofs = {t: K["sizeof_" + t] for t in SIZEOF_TYPES}
    consts = {c: K[c] for c in CONST_MACROS}
    out = ["(* GENERATED from include/yara/pe_utils.h, include/yara/dex.h, modules/elf/elf.c, modules/macho/macho.c,\n"
           "   modules/pe/pe_utils.c by lib/genbounds.py: do not edit *)\n"
           "From Coq Require Import ZArith Bool List.\nFrom YV Require Import Base.USem.\nImport ListNotations.\nLocal Open Scope Z_scope.\n\n"]
    for c in CONST_MACROS:
        out.append("Definition %s : Z := %d.\n" % (c, consts[c]))
    for t in SIZEOF_TYPES:
        out.append("Definition sizeof_%s : Z := %d.\n" % (t, sizeofs[t]))
    out.append("Definition off_nt_optional_header : Z := %d.\n\n" % K["off_nt_optional_header"])
    src = {}

    # ---- fits_in_pe, fits_in_dex
    for macro, hdr, struct in (("fits_in_pe", "libyara/include/yara/pe_utils.h", "PE"),
                               ("fits_in_dex", "libyara/include/yara/dex.h", "DEX")):
        what = "%s (%s)" % (macro, hdr)
        env, ast, text = _buffer_macro(hdr, macro, struct, what)
        em = UEmit(env, sizeofs, consts, what)
        term = em.cond(ast)
        out.append("(* %s *)\nDefinition %s (data data_size pointer size : Z) : bool :=\n  %s.\n\n"
                   % (re.sub(r"\s+", " ", text.replace("\\\n", " ")).replace("*)", "* )"), macro, term))
        src[macro] = text
        # struct_fits_in_xx must be the same predicate at sizeof(struct_type)
        sname = "struct_" + macro
        p2, b2, t2 = macro_def(_read(hdr), sname, what)
        want = "%s(%s,%s,sizeof(%s))" % (macro, p2[0], p2[1], p2[2]) if len(p2) == 3 else None
        if want is None or re.sub(r"\s+", "", b2) != want:
            raise GenError("translator cannot parse %s: %s is no longer %s at sizeof(struct_type)" % (what, sname, macro))
        src[sname] = t2

    # ---- is_valid_ptr
    what = "is_valid_ptr (modules/elf/elf.c)"
    params, body, text = function_def(_read("libyara/modules/elf/elf.c"), "is_valid_ptr", what)
    ast = parse_stmts(body, what)
    if len(ast[1]) != 1 or ast[1][0][0] != "return" or ast[1][0][1] is None:
        raise GenError("translator cannot parse %s: body is not a single return statement" % what)
    env = {}
    for n, ts in params:
        env[n] = (n if n != "size" else "size", ctype_of(ts, what))
    if [n for n, _ in params] != ["base", "size", "ptr", "ptr_size"]:
        raise GenError("translator cannot parse %s: parameters changed to %r" % (what, [n for n, _ in params]))
    em = UEmit(env, sizeofs, consts, what)
    term = em.cond(ast[1][0][1])
    out.append("(* %s *)\nDefinition is_valid_ptr (base size ptr ptr_size : Z) : bool :=\n  %s.\n\n"
               % (re.sub(r"\s+", " ", strip_comments(text)).replace("*)", "* )"), term))
    src["is_valid_ptr"] = text
    src["is_valid_ptr_params"] = ", ".join("%s %s" % (ts, n) for n, ts in params)

    # ---- macho load-command loops
    mtxt = _read("libyara/modules/macho/macho.c")
    what = "macho_parse_file (modules/macho/macho.c)"
    fparams, fbody, _ = function_def(mtxt, "macho_parse_file", what)
    ptypes = dict(fparams)
    loops = list(re.finditer(r"for\s*\(\s*unsigned\s+i\s*=\s*0\s*;\s*i\s*<\s*header\.ncmds\s*;\s*i\+\+\s*\)\s*\{", fbody))
    if len(loops) != 2:
        raise GenError("translator cannot parse %s: expected 2 load-command loops, found %d" % (what, len(loops)))
    import genfold
    lc_fields = struct_fields(_read("libyara/include/yara/macho.h"), "yr_load_command_t", what)
    if "cmdsize" not in lc_fields:
        raise GenError("translator cannot parse %s: yr_load_command_t has no cmdsize" % what)
    if not re.search(r"uint8_t\s*\*\s*command\s*=\s*\(uint8_t\s*\*\)\s*\(data\s*\+\s*header_size\)", fbody) or \
       not re.search(r"uint64_t\s+parsed_size\s*=\s*header_size\s*;", fbody):
        raise GenError("translator cannot parse %s: command/parsed_size are no longer both initialised from header_size" % what)
    env = {"data": ("data", ctype_of(ptypes.get("data", "?"), what)), "size": ("size", ctype_of(ptypes.get("size", "?"), what)),
           "command": ("command", ctype_of(_decl_type(fbody, "command", what), what)),
           "parsed_size": ("parsed_size", ctype_of(_decl_type(fbody, "parsed_size", what), what)),
           "command_struct.cmdsize": ("cmdsize", ctype_of(lc_fields["cmdsize"], what))}
    for idx, lm in enumerate(loops):
        i = lm.end() - 1
        j = genfold.match_brace(fbody, i)
        lbody = fbody[i + 1:j - 1]
        sw = lbody.find("switch")
        if sw < 0:
            raise GenError("translator cannot parse %s: loop %d has no switch" % (what, idx + 1))
        tail = lbody[sw:]
        k = genfold.match_brace(tail, tail.index("{"))
        adv = re.sub(r"\s+", "", strip_comments(tail[k:]))
        if adv != "command+=command_struct.cmdsize;parsed_size+=command_struct.cmdsize;":
            raise GenError("translator cannot parse %s: loop %d no longer advances command and parsed_size by cmdsize (%s)"
                           % (what, idx + 1, adv[:80]))
        head = lbody[:sw]
        # the two statements that fill the local copy (cexpr has no address-of): exactly these texts are skipped
        head = re.sub(r"memcpy\s*\(\s*&command_struct\s*,\s*command\s*,\s*sizeof\s*\(\s*yr_load_command_t\s*\)\s*\)\s*;", " ", head)
        head = re.sub(r"if\s*\(\s*should_swap\s*\)\s*swap_load_command\s*\(\s*&command_struct\s*\)\s*;", " ", head)
        conds = _guards(parse_stmts(head, what)[1], what, {"memcpy", "swap_load_command"})
        if not conds:
            raise GenError("translator cannot parse %s: loop %d has no guards" % (what, idx + 1))
        em = UEmit(env, sizeofs, consts, what)
        term = "true"
        for c in reversed(conds):
            term = "(if %s then false else %s)" % (em.cond(c), term)
        name = "macho_cmd_ok_%d" % (idx + 1)
        out.append("(* load-command loop %d of macho_parse_file continues past its guards (no `break`):\n   %s *)\n"
                   "Definition %s (data size command parsed_size cmdsize : Z) : bool :=\n  %s.\n\n"
                   % (idx + 1, re.sub(r"\s+", " ", strip_comments(head)).replace("*)", "* )"), name, term))
        # the C text of the guards, for the harness
        ctext = []
        for mm in re.finditer(r"if\s*\((.*?)\)\s*break\s*;", strip_comments(head), re.S):
            ctext.append(re.sub(r"\s+", " ", mm.group(1)))
        if len(ctext) != len(conds):
            raise GenError("translator cannot parse %s: guard texts of loop %d" % (what, idx + 1))
        src[name] = ctext
    src["macho_cmd_types"] = {"data": ptypes["data"], "size": ptypes["size"], "command": _decl_type(fbody, "command", what),
                              "parsed_size": _decl_type(fbody, "parsed_size", what)}

    # ---- macho fat-arch loop
    what = "macho_parse_fat_file (modules/macho/macho.c)"
    fparams, fbody, _ = function_def(mtxt, "macho_parse_fat_file", what)
    ptypes = dict(fparams)
    lm = re.search(r"for\s*\(\s*uint32_t\s+i\s*=\s*0\s*;\s*i\s*<\s*count\s*;\s*i\+\+\s*\)\s*\{", fbody)
    if not lm:
        raise GenError("translator cannot parse %s: fat-arch loop not found" % what)
    i = lm.end() - 1
    lbody = strip_comments(fbody[i + 1:genfold.match_brace(fbody, i) - 1])
    gtexts = [re.sub(r"\s+", " ", mm.group(1)) for mm in re.finditer(r"if\s*\(([^;{}]*?)\)\s*continue\s*;", lbody, re.S)]
    if not gtexts:
        raise GenError("translator cannot parse %s: no `continue` guards in the fat-arch loop" % what)
    if not re.search(r"macho_parse_file\s*\(\s*data\s*\+\s*arch\.offset\s*,\s*arch\.size\s*,", lbody):
        raise GenError("translator cannot parse %s: the nested file is no longer (data + arch.offset, arch.size)" % what)
    if _decl_type(fbody, "arch", what).strip() != "yr_fat_arch_64_t":
        raise GenError("translator cannot parse %s: arch is no longer a yr_fat_arch_64_t" % what)
    af = struct_fields(_read("libyara/include/yara/macho.h"), "yr_fat_arch_64_t", what)
    env = {"size": ("size", ctype_of(ptypes.get("size", "?"), what)),
           "arch.offset": ("offset", ctype_of(af.get("offset", "?"), what)), "arch.size": ("asize", ctype_of(af.get("size", "?"), what))}
    em = UEmit(env, sizeofs, consts, what)
    term = "true"
    for g in reversed(gtexts):
        term = "(if %s then false else %s)" % (em.cond(parse_expr(g, what)), term)
    out.append("(* fat-arch loop of macho_parse_fat_file reaches macho_parse_file(data + arch.offset, arch.size, ...):\n   %s *)\n"
               "Definition macho_fat_arch_ok (size offset asize : Z) : bool :=\n  %s.\n\n" % ("; ".join(gtexts), term))
    src["macho_fat_arch_ok"] = gtexts
    src["macho_fat_types"] = {"size": ptypes["size"], "offset": af["offset"], "asize": af["size"]}

    # ---- section loop condition of pe_rva_to_offset
    what = "pe_rva_to_offset (modules/pe/pe_utils.c)"
    _, fbody, _ = function_def(_read("libyara/modules/pe/pe_utils.c"), "pe_rva_to_offset", what)
    fb = strip_comments(fbody)
    wm = list(re.finditer(r"\bwhile\s*\(", fb))
    if len(wm) != 1:
        raise GenError("translator cannot parse %s: expected one while loop, found %d" % (what, len(wm)))
    i = wm[0].end()
    depth = 1
    j = i
    while j < len(fb) and depth:
        depth += {"(": 1, ")": -1}.get(fb[j], 0)
        j += 1
    ctext = re.sub(r"\s+", " ", fb[i:j - 1]).strip()
    if _decl_type(fb, "i", what).strip() != "int":
        raise GenError("translator cannot parse %s: loop counter is no longer an int" % what)
    pe_fields = struct_fields(_read("libyara/include/yara/pe.h"), "IMAGE_FILE_HEADER", what)
    env = {"i": ("i", ("s", 32)),
           "pe->header->FileHeader.NumberOfSections": ("number_of_sections", ctype_of(pe_fields.get("NumberOfSections", "?"), what))}
    em = UEmit(env, sizeofs, consts, what)
    term = em.cond(parse_expr(ctext, what))
    out.append("(* while (%s) *)\nDefinition pe_rva_loop_cond (i number_of_sections : Z) : bool :=\n  %s.\n" % (ctext, term))
    src["pe_rva_loop_cond"] = ctext
    _export_tables(sizeofs, consts, out, src)
    _dotnet_depth(out, src)
    _elf_header_guards(sizeofs, out, src)
    _dict_growth(out, src)
    src["constants"] = K
    return "".join(out), src


@gen.register("GenBounds.v")
def gen_bounds():
    return translate()[0]


def sources():
    return translate()[1]


if __name__ == "__main__":
    print(translate()[0])
