"""Translators: regenerate coq/gen/Gen*.v from /repo's current sources (tie of the first kind).

Every generator either returns the text of a .v file or raises GenError("translator cannot parse ...").
"""
import os, re, subprocess, tempfile, shutil, hashlib
from build import REPO, VERIF, DEFS, scratch_root

GEN_DIR = os.path.join(VERIF, "coq", "gen")
REF_DIR = os.path.join(VERIF, "coq", "Gen.ref")


class GenError(Exception):
    pass


HEADERS = ["yara/limits.h", "yara/arena.h", "yara/re.h", "yara/exec.h", "yara/types.h", "yara/error.h",
           "yara/ahocorasick.h", "yara/atoms.h", "yara/scan.h", "yara/rules.h", "yara/scanner.h",
           "yara/object.h", "yara/sizedstr.h", "yara/utils.h", "yara/compiler.h", "yara/libyara.h"]
PREFIXES = ("EXPRESSION_TYPE_", "YR_", "RE_", "OP_", "ERROR_", "CALLBACK_", "SCAN_FLAGS_", "STRING_FLAGS_", "RULE_FLAGS_",
            "EXTERNAL_VARIABLE_TYPE_", "META_", "OBJECT_TYPE_", "SIZED_STRING_FLAGS_", "EOL", "ATOM_",
            "NAMESPACE_", "YARA_ERROR_LEVEL", "_OP_", "MAX_", "MEM_SIZE")
SKIP = {"YR_API", "YR_ALIGN", "YR_DEPRECATED_API", "YR_ARENA_NULL_REF", "YR_PRINTF_LIKE", "YR_UNDEFINED",
        "YR_VERSION", "YR_PAGE_SIZE"}

STRUCTS = ["YR_NAMESPACE", "YR_META", "YR_STRING", "YR_RULE", "YR_SUMMARY", "YR_EXTERNAL_VARIABLE",
           "YR_AC_MATCH", "YR_ARENA_REF", "RE_CLASS", "SIZED_STRING"]


def _macro_names():
    names = []
    inc = os.path.join(REPO, "libyara", "include")
    for h in HEADERS:
        p = os.path.join(inc, h)
        if not os.path.exists(p):
            raise GenError("translator cannot find header " + h)
        for line in open(p, encoding="latin-1"):
            m = re.match(r"\s*#\s*define\s+([A-Za-z_][A-Za-z0-9_]*)(\(?)", line)
            if not m or m.group(2) == "(":
                continue
            n = m.group(1)
            if n in SKIP or n.endswith("_H") or not n.startswith(PREFIXES):
                continue
            if n not in names:
                names.append(n)
    return names


def _struct_fields(name):
    """(field, is_reference) list parsed from types.h / arena.h / sizedstr.h."""
    inc = os.path.join(REPO, "libyara", "include", "yara")
    for h in ("types.h", "arena.h", "sizedstr.h"):
        txt = open(os.path.join(inc, h), encoding="latin-1").read()
        m = re.search(r"^(?:typedef\s+)?struct\s+(?:_)?%s\s*\{" % name, txt, re.M)
        if not m:
            continue
        i = m.end()
        depth = 1
        j = i
        while depth and j < len(txt):
            if txt[j] == "{":
                depth += 1
            elif txt[j] == "}":
                depth -= 1
            j += 1
        body = txt[i:j - 1]
        body = re.sub(r"//[^\n]*", "", body)
        body = re.sub(r"/\*.*?\*/", "", body, flags=re.S)
        fields = []
        # flatten nested unions: replace "union { ... } name;" by "int name;"
        while True:
            m2 = re.search(r"union\s*\{[^{}]*\}\s*([A-Za-z_0-9]+)\s*;", body)
            if not m2:
                break
            body = body[:m2.start()] + "int %s;" % m2.group(1) + body[m2.end():]
        for stmt in body.split(";"):
            stmt = stmt.strip()
            if not stmt:
                continue
            mr = re.match(r"DECLARE_REFERENCE\s*\((.*),\s*([A-Za-z_0-9]+)\s*\)$", stmt, re.S)
            if mr:
                fields.append((mr.group(2), True))
                continue
            mf = re.search(r"([A-Za-z_][A-Za-z_0-9]*)\s*(\[[^\]]*\])?$", stmt)
            if not mf:
                raise GenError("translator cannot parse field '%s' of %s" % (stmt, name))
            fields.append((mf.group(1), False))
        return fields
    raise GenError("translator cannot find struct " + name)


def _compile_run(src, extra_inc=()):
    d = tempfile.mkdtemp(prefix="verif-gen.", dir=scratch_root())
    try:
        c = os.path.join(d, "g.c")
        open(c, "w").write(src)
        cmd = ["gcc", "-w", "-o", os.path.join(d, "g"), c, "-I" + os.path.join(REPO, "libyara/include"),
               "-I" + os.path.join(REPO, "libyara")] + DEFS + list(extra_inc)
        p = subprocess.run(cmd, stdout=subprocess.PIPE, stderr=subprocess.PIPE, text=True)
        if p.returncode != 0:
            return None, p.stderr
        q = subprocess.run([os.path.join(d, "g")], stdout=subprocess.PIPE, text=True)
        return q.stdout, ""
    finally:
        shutil.rmtree(d, ignore_errors=True)


def gen_consts():
    names = _macro_names()
    pre = "#include <stdio.h>\n#include <stddef.h>\n#include <string.h>\n" + \
          "".join("#include <%s>\n" % h for h in HEADERS) + \
          '#define P(n) printf("Definition %s : Z := (%lld)%%Z.\\n", #n, (long long)(n));\n'
    for attempt in range(6):
        lines = [pre, "int main(){\n"]
        base = pre.count("\n") + 1
        for n in names:
            lines.append("P(%s)\n" % n)
        lines.append("return 0;}\n")
        out, err = _compile_run("".join(lines))
        if out is not None:
            break
        bad = set()
        for m in re.finditer(r"g\.c:(\d+):\d+: error", err):
            idx = int(m.group(1)) - base - 1
            if 0 <= idx < len(names):
                bad.add(names[idx])
        if not bad:
            raise GenError("translator cannot compile constants program: " + err[:500])
        names = [n for n in names if n not in bad]
    else:
        raise GenError("translator cannot compile constants program")
    # layout
    lay = [pre.replace("P(n)", "PX(n)"),
           '#define S(t) printf("Definition sizeof_%s : Z := %zu%%Z.\\n", #t, sizeof(t));\n',
           '#define O(t,f) printf("Definition off_%s_%s : Z := %zu%%Z.\\n", #t, #f, offsetof(t,f));\n',
           "int main(){\n"]
    refs = []
    for s in STRUCTS:
        lay.append("S(%s)\n" % s)
        for f, isref in _struct_fields(s):
            lay.append("O(%s,%s)\n" % (s, f))
            if isref:
                refs.append((s, f))
    lay.append('printf("Definition sizeof_ptr : Z := %zu%%Z.\\n", sizeof(void*));\n')
    lay.append("return 0;}\n")
    out2, err = _compile_run("".join(lay))
    if out2 is None:
        raise GenError("translator cannot compile layout program: " + err[:800])
    undef, err = _compile_run(pre + 'int main(){printf("Definition YR_UNDEFINED : Z := (%lld)%%Z.\\n",'
                              '(long long)YR_UNDEFINED);return 0;}')
    if undef is None:
        raise GenError("translator cannot evaluate YR_UNDEFINED: " + err[:300])
    arena, err = _compile_run('#include <stdio.h>\n#include <stdlib.h>\n#include "arena.c"\n'
                              'void* yr_malloc(size_t n){return malloc(n);} void* yr_calloc(size_t a,size_t b){return calloc(a,b);}'
                              'void* yr_realloc(void*p,size_t n){return realloc(p,n);} void yr_free(void*p){free(p);}'
                              'size_t yr_stream_read(void*p,size_t s,size_t c,YR_STREAM*st){return 0;}'
                              'size_t yr_stream_write(const void*p,size_t s,size_t c,YR_STREAM*st){return 0;}\n'
                              'int main(){'
                              'printf("Definition sizeof_YR_ARENA_FILE_HEADER : Z := %zu%%Z.\\n", sizeof(YR_ARENA_FILE_HEADER));'
                              'printf("Definition sizeof_YR_ARENA_FILE_BUFFER : Z := %zu%%Z.\\n", sizeof(YR_ARENA_FILE_BUFFER));'
                              'printf("Definition off_YR_ARENA_FILE_BUFFER_size : Z := %zu%%Z.\\n", offsetof(YR_ARENA_FILE_BUFFER,size));'
                              'printf("Definition off_YR_ARENA_FILE_HEADER_version : Z := %zu%%Z.\\n", offsetof(YR_ARENA_FILE_HEADER,version));'
                              'printf("Definition off_YR_ARENA_FILE_HEADER_num_buffers : Z := %zu%%Z.\\n", offsetof(YR_ARENA_FILE_HEADER,num_buffers));'
                              'return 0;}')
    if arena is None:
        raise GenError("translator cannot evaluate arena file layout: " + err[:300])
    out2 = out2 + arena
    txt = ["(* GENERATED from /repo headers by lib/gen.py: do not edit *)\n",
           "From Coq Require Import ZArith List.\nImport ListNotations.\nLocal Open Scope Z_scope.\n\n",
           out, undef, "\n", out2, "\n"]
    for s in STRUCTS:
        rs = [f for (t, f) in refs if t == s]
        txt.append("Definition refs_%s : list Z := [%s].\n" % (s, "; ".join("off_%s_%s" % (s, f) for f in rs)))
    return "".join(txt)


GENERATORS = {"GenConsts.v": gen_consts}


def register(name):
    def deco(f):
        GENERATORS[name] = f
        return f
    return deco


def regenerate(only=None):
    """Write gen/*.v (content-compare, keep mtime when unchanged). Returns {name: 'same'|'changed'|'error:..'}"""
    os.makedirs(GEN_DIR, exist_ok=True)
    res = {}
    for name, fn in GENERATORS.items():
        if only and name not in only:
            continue
        try:
            txt = fn()
        except GenError as e:
            res[name] = "error:" + str(e)
            continue
        p = os.path.join(GEN_DIR, name)
        old = open(p).read() if os.path.exists(p) else None
        if old != txt:
            with open(p, "w") as f:
                f.write(txt)
        ref = os.path.join(REF_DIR, name)
        refs = open(ref).read() if os.path.exists(ref) else None
        res[name] = "same" if refs == txt else "changed"
    return res


if __name__ == "__main__":
    import sys
    import gen as G   # the importable instance (generators register there)
    import genfold  # noqa
    r = G.regenerate()
    for k, v in r.items():
        print(k, v)
    if "--update-ref" in sys.argv:
        os.makedirs(REF_DIR, exist_ok=True)
        for k in r:
            if os.path.exists(os.path.join(GEN_DIR, k)):
                shutil.copy2(os.path.join(GEN_DIR, k), os.path.join(REF_DIR, k))
