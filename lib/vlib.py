"""Shared machinery for the checks: PRNG, harness I/O, Coq build/eval, evidence, violations."""
import json, os, subprocess, sys, time, hashlib, fcntl, re, shutil, tempfile

sys.path.insert(0, os.path.dirname(os.path.abspath(__file__)))
import build  # noqa
import gen  # noqa
import genfold  # noqa  (registers generators)
import genlimits  # noqa
import genqueue  # noqa
import genbounds  # noqa

VERIF = build.VERIF
REPO = build.REPO
COQ = os.path.join(VERIF, "coq")
MASK = (1 << 64) - 1


class Rng:
    """SplitMix64; every random choice of a check derives from one state (VERIF_SEED)."""

    def __init__(self, seed):
        self.s = seed & MASK

    def next(self):
        self.s = (self.s + 0x9E3779B97F4A7C15) & MASK
        z = self.s
        z = ((z ^ (z >> 30)) * 0xBF58476D1CE4E5B9) & MASK
        z = ((z ^ (z >> 27)) * 0x94D049BB133111EB) & MASK
        return z ^ (z >> 31)

    def below(self, n):
        return self.next() % n if n > 0 else 0

    def range(self, a, b):
        return a + self.below(b - a + 1)

    def choice(self, l):
        return l[self.below(len(l))]

    def chance(self, num, den):
        return self.below(den) < num

    def bytes(self, n):
        return bytes(self.below(256) for _ in range(n))

    def shuffle(self, l):
        for i in range(len(l) - 1, 0, -1):
            j = self.below(i + 1)
            l[i], l[j] = l[j], l[i]

    def fork(self):
        return Rng(self.next())


def hx(b):
    return b.hex() if len(b) else "-"


def unhx(s):
    return b"" if s == "-" else bytes.fromhex(s)


# ------------------------------------------------------------------ harness I/O
def _run_cases_one(binary, cases, timeout, args):
    inp = []
    for cid, lines in cases:
        inp.append("case %s" % cid)
        inp.extend(lines)
        inp.append("endcase")
    p = subprocess.run([binary] + list(args), input="\n".join(inp) + "\n", stdout=subprocess.PIPE,
                       stderr=subprocess.PIPE, text=True, timeout=timeout)
    out = {}
    cur = None
    for line in p.stdout.split("\n"):
        if line.startswith("case "):
            cur = line[5:]
            out[cur] = []
        elif line.startswith("endcase "):
            cur = None
        elif cur is not None:
            out[cur].append(line)
    return out, p.stderr


def run_cases(binary, cases, timeout=600, args=(), jobs=1):
    """cases: list of (id, [command lines]).  Returns {id: [output lines]} (with 'crash ...' lines).
    jobs > 1: the cases (each runs in its own forked child anyway) are spread over that many harness processes."""
    if jobs <= 1 or len(cases) < 2 * jobs:
        return _run_cases_one(binary, cases, timeout, args)
    from concurrent.futures import ThreadPoolExecutor
    chunks = [cases[k::jobs] for k in range(jobs)]
    out, errs = {}, []
    with ThreadPoolExecutor(max_workers=jobs) as ex:
        for o, e in ex.map(lambda ch: _run_cases_one(binary, ch, timeout, args), chunks):
            out.update(o)
            errs.append(e)
    return out, "".join(errs)


def _big_stack():
    import resource
    try:
        resource.setrlimit(resource.RLIMIT_STACK, (resource.RLIM_INFINITY, resource.RLIM_INFINITY))
    except Exception:
        try:
            soft, hard = resource.getrlimit(resource.RLIMIT_STACK)
            resource.setrlimit(resource.RLIMIT_STACK, (hard, hard))
        except Exception:
            pass


def run_lines(binary, lines, timeout=600, args=()):
    # the extracted models recurse over long lists: give them the largest stack available
    p = subprocess.run([binary] + list(args), input="\n".join(lines) + "\n", stdout=subprocess.PIPE,
                       stderr=subprocess.PIPE, text=True, timeout=timeout, preexec_fn=_big_stack)
    return p.stdout.split("\n"), p.stderr


# ------------------------------------------------------------------ Coq
class CoqError(Exception):
    pass


def coq_lock():
    f = open(os.path.join(COQ, ".lock"), "w")
    fcntl.flock(f, fcntl.LOCK_EX)
    return f


def coq_files():
    fs = []
    for d in ("Base", "gen", "Model", "Spec", "Proofs", "Props", "Extract"):
        p = os.path.join(COQ, d)
        if os.path.isdir(p):
            for f in sorted(os.listdir(p)):
                if f.endswith(".v"):
                    fs.append(d + "/" + f)
    return fs


def coq_prepare(extract_only="keep"):
    """Regenerate gen/*.v from /repo and (re)create the Makefile. Returns gen status dict."""
    st = gen.regenerate()
    if extract_only != "keep":
        write_extract_v(extract_only)
    elif not os.path.exists(os.path.join(COQ, "Extract", "Extract.v")):
        write_extract_v()
    mk = os.path.join(COQ, "Makefile")
    files = coq_files()
    stamp = os.path.join(COQ, ".files")
    old = open(stamp).read() if os.path.exists(stamp) else ""
    if old != "\n".join(files) or not os.path.exists(mk):
        subprocess.run(["coq_makefile", "-f", "_CoqProject"] + files + ["-o", "Makefile"], cwd=COQ,
                       stdout=subprocess.DEVNULL, check=True)
        open(stamp, "w").write("\n".join(files))
    return st


def coq_make(targets, timeout=1500):
    """make the given .vo targets (closure). Returns (ok, log)."""
    cmd = ["make", "-k", "-j16"] + list(targets)
    try:
        p = subprocess.run(cmd, cwd=COQ, stdout=subprocess.PIPE, stderr=subprocess.STDOUT, text=True,
                           timeout=timeout)
    except subprocess.TimeoutExpired as e:
        return False, "timeout after %ds\n%s" % (timeout, (e.stdout or b"")[-2000:])
    return p.returncode == 0, p.stdout


def coq_eval(body, timeout=600, requires=()):
    """Compile a scratch .v file (outside the tree) with the library on the load path; returns stdout."""
    d = tempfile.mkdtemp(prefix="verif-coq.", dir=build.scratch_root())
    try:
        f = os.path.join(d, "Scratch.v")
        open(f, "w").write(body)
        p = subprocess.run(["coqc", "-R", COQ, "YV", "-w", "-all", f], stdout=subprocess.PIPE,
                           stderr=subprocess.STDOUT, text=True, timeout=timeout, cwd=d)
        return p.returncode, p.stdout
    finally:
        shutil.rmtree(d, ignore_errors=True)


def theorem_names(props_file):
    """Names of Theorem statements in a Props file = proof obligations of a property."""
    txt = open(os.path.join(COQ, props_file)).read()
    return re.findall(r"^(?:Theorem|Corollary)\s+([A-Za-z0-9_']+)", txt, re.M)


def print_assumptions(log, names):
    """Extract the Print Assumptions output following each theorem from a coqc log."""
    res = {}
    for n in names:
        res[n] = None
    return res


FORBIDDEN = re.compile(r"\b(Admitted|admit|Axiom|Parameter|Conjecture|Admit Obligations)\b|Unset Guard|bypass_check|type-in-type|impredicative-set")


def grep_forbidden():
    bad = []
    for rel in coq_files():
        if rel.startswith("gen/") and False:
            continue
        txt = open(os.path.join(COQ, rel)).read()
        txt = re.sub(r"\(\*.*?\*\)", "", txt, flags=re.S)
        for i, line in enumerate(txt.split("\n")):
            if FORBIDDEN.search(line):
                bad.append("%s:%d:%s" % (rel, i + 1, line.strip()))
    return bad


# ------------------------------------------------------------------ evidence / violations
class Check:
    def __init__(self, pid, tier, seed):
        self.pid = pid
        self.tier = tier
        self.seed = seed
        self.t0 = time.time()
        self.cov = {"samples": []}
        self.violations = []      # (key, description, replay dict)
        self.known = []
        self.assumptions = []
        self.rng = Rng(seed * 1000003 + int(hashlib.sha256(pid.encode()).hexdigest()[:8], 16))
        kf = os.path.join(VERIF, "known_findings.json")
        self.kf = json.load(open(kf)) if os.path.exists(kf) else {"findings": [], "fixed": []}

    def note(self, **kw):
        for k, v in kw.items():
            self.cov[k] = v

    def add(self, key, n=1):
        self.cov[key] = self.cov.get(key, 0) + n

    def sample(self, s, cap=6):
        if len(self.cov["samples"]) < cap:
            self.cov["samples"].append(s)

    def violation(self, key, what, replay, found_input=True):
        """Report a violation unless (pid,key) is a listed known finding."""
        for f in self.kf.get("findings", []):
            if f["property"] == self.pid and f["key"] == key:
                if key not in [k for k, _ in self.known]:
                    self.known.append((key, f.get("what", what)))
                return
        self.violations.append((key, what, replay, found_input))

    def finish(self, level="proof"):
        # runs against a scratch copy (VERIF_REPO, used for the seeded changes) must not overwrite the evidence of /repo itself
        scratch = os.environ.get("VERIF_REPO", "/repo").rstrip("/") != "/repo"
        evdir = os.path.join(VERIF, "_scratch", "evidence") if scratch else os.path.join(VERIF, "evidence")
        rpdir = os.path.join(VERIF, "_scratch", "replays") if scratch else os.path.join(VERIF, "replays")
        os.makedirs(evdir, exist_ok=True)
        os.makedirs(rpdir, exist_ok=True)
        for key, what in self.known:
            print("KNOWN-FINDING: property=%s %s" % (self.pid, what))
        rc = 0
        seen = set()
        # a broken proof/correspondence is reported on its own only when the search found no failing input
        if any(f for _, _, _, f in self.violations):
            broken = [(k, w) for k, w, _, f in self.violations if not f]
            self.violations = [(k, w, dict(r, also_broken=[w2[:400] for _, w2 in broken]) if isinstance(r, dict) else r, f)
                               for k, w, r, f in self.violations if f]
        for key, what, replay, found in self.violations:
            if key in seen:
                continue
            seen.add(key)
            h = hashlib.sha256((self.pid + key).encode()).hexdigest()[:10]
            path = os.path.join(rpdir, "%s-%s.json" % (self.pid, h))
            with open(path, "w") as f:
                json.dump({"property": self.pid, "key": key, "what": what, "replay": replay, "seed": self.seed,
                           "tier": self.tier}, f, indent=1)
            print("VIOLATION property=%s replay=%s%s" % (self.pid, path, "" if found else " no-failing-input-found"))
            print("  " + what[:600])
            rc = 1
            if len(seen) >= 8:
                break
        ev = {"property_id": self.pid, "tier": self.tier, "seed": self.seed, "level": level, "coverage": self.cov,
              "assumptions": self.assumptions, "wall_s": round(time.time() - self.t0, 2),
              "violations": len(seen)}
        with open(os.path.join(evdir, self.pid + ".json"), "w") as f:
            json.dump(ev, f, indent=1, default=str)
        return rc


TRUSTED_COMMON = [
    "Coq 8.16.1 kernel (coqc); vm_compute used for finite sweeps and witnesses; native_compute not used",
    "no Axiom/Parameter/Admitted in coq/ (grep on every run); Print Assumptions under every property theorem",
    "translators in lib/gen*.py (constants and layout printed by C programs compiled against /repo's headers)",
    "extraction: ExtrOcamlBasic only (bool, option, unit, list, prod, sumbool, sumor); OCaml 4.13.1 ocamlfind ocamlopt",
    "correspondence harness: C drivers in harness/ linked against libyara.a built from /repo's working tree with -DYARA_VERIF",
]


def proof_obligations(check, props_file, extra_targets=()):
    """Regenerate generated models, build the closure of a Props file, record obligations.
    Returns (ok, log, gen_status)."""
    lock = coq_lock()
    try:
        st = coq_prepare()
        target = props_file[:-2] + ".vo"
        t0 = time.time()
        ok, log = coq_make([target] + list(extra_targets))
        names = theorem_names(props_file)
        bad = grep_forbidden()
        check.note(obligations=len(names), discharged=len(names) if ok and not bad else 0,
                   obligation_names=names,
                   checker_cmd="cd /verif/coq && make -k -j16 %s   (coqc 8.16.1, full .vo build)" % target,
                   coq_wall_s=round(time.time() - t0, 1), generated_models=st,
                   trusted_base=list(TRUSTED_COMMON))
        # Print Assumptions output is in the .vo build log only when rebuilt; query it explicitly
        mod = "YV." + props_file[:-2].replace("/", ".")
        if ok:
            body = "Require Import %s.\n" % mod + "".join("Print Assumptions %s.\n" % n for n in names)
            rc, out = coq_eval(body)
            check.note(print_assumptions=re.sub(r"\s+", " ", out).strip()[:3000])
            if rc != 0:
                ok = False
                log += "\nPrint Assumptions failed:\n" + out
        if bad:
            ok = False
            log += "\nforbidden constructs: " + "; ".join(bad)
        return ok, log, st
    finally:
        fcntl.flock(lock, fcntl.LOCK_UN)
        lock.close()


def _stable():
    p = os.path.join(VERIF, "ocaml", "stable.txt")
    return set(open(p).read().split()) if os.path.exists(p) else None


def write_extract_v(only=None):
    """coq/Extract/Extract.v is assembled from coq/Extract/parts/*.txt (one part per model)."""
    parts = sorted(os.listdir(os.path.join(COQ, "Extract", "parts")))
    reqs, names = [], []
    for f in parts:
        if only is not None and f[:-4] not in only:
            continue
        for line in open(os.path.join(COQ, "Extract", "parts", f)):
            line = line.strip()
            if line.startswith("require:"):
                reqs += [x for x in line[8:].split() if x not in reqs]
            elif line.startswith("names:"):
                names += line[6:].split()
    txt = ("(* ASSEMBLED from coq/Extract/parts/*.txt by lib/vlib.py: do not edit.\n"
           "   ExtrOcamlBasic only: bool, option, unit, list, prod, sumbool, sumor are mapped to OCaml's;\n"
           "   N, Z, positive, nat stay the Coq datatypes. *)\n"
           "Require Extraction.\nRequire Import ExtrOcamlBasic.\n"
           "From YV Require Import %s.\n\nCd \"extracted\".\nExtraction \"model.ml\" %s.\nCd \"..\".\n"
           % (" ".join(reqs), " ".join(names)))
    p = os.path.join(COQ, "Extract", "Extract.v")
    if not os.path.exists(p) or open(p).read() != txt:
        open(p, "w").write(txt)


def _build_model_once(only):
    write_extract_v(only)
    coq_prepare(extract_only=only)
    os.makedirs(os.path.join(COQ, "extracted"), exist_ok=True)
    ok, log = coq_make(["Extract/Extract.vo"])
    if not ok:
        raise CoqError("extraction failed:\n" + log[-3000:])
    ex = os.path.join(COQ, "extracted")
    od = os.path.join(VERIF, "ocaml")
    frags = [os.path.join(od, "prelude.ml")] + [os.path.join(od, "cmds", f) for f in sorted(os.listdir(os.path.join(od, "cmds")))
                                                  if f.endswith(".ml") and (only is None or f[:-3] in only)] + [os.path.join(od, "main.ml")]
    drv = "open Model\n" + "\n".join(open(f).read() for f in frags)
    dp = os.path.join(ex, "driver.ml")
    if not os.path.exists(dp) or open(dp).read() != drv:
        open(dp, "w").write(drv)
    out = os.path.join(ex, "model_runner")
    srcs = [os.path.join(ex, "model.mli"), os.path.join(ex, "model.ml"), dp]
    if os.path.exists(out) and all(os.path.getmtime(out) >= os.path.getmtime(s) for s in srcs):
        return out
    p = subprocess.run(["ocamlfind", "ocamlopt", "-inline", "50", "-w", "-a", "-o", out,
                        "model.mli", "model.ml", "driver.ml"], cwd=ex, stdout=subprocess.PIPE,
                       stderr=subprocess.STDOUT, text=True)
    if p.returncode != 0:
        if os.path.exists(out):
            os.remove(out)
        raise CoqError("ocaml build failed:\n" + p.stdout[-3000:])
    return out


def build_model():
    """Extract the Gallina models and build the OCaml model runner; returns its path.
    If a part that is not listed in ocaml/stable.txt (work in progress) breaks the build, only the stable parts are used."""
    lock = coq_lock()
    try:
        try:
            return _build_model_once(None)
        except CoqError:
            st = _stable()
            if st is None:
                raise
            return _build_model_once(st)
    finally:
        fcntl.flock(lock, fcntl.LOCK_UN)
        lock.close()


def consts():
    """Integer constants of gen/GenConsts.v as a dict (regenerated from /repo)."""
    d = {}
    for m in re.finditer(r"^Definition (\w+) : Z := \(?(-?\d+)\)?%Z\.", open(os.path.join(COQ, "gen", "GenConsts.v")).read(), re.M):
        d[m.group(1)] = int(m.group(2))
    return d
