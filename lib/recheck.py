"""shared comparison of implementation match lists with the regex reference (Spec/RegexSpec.v)"""
import re
import vlib
from vlib import hx


def make_buffer(rng, sexps, size, alphabet):
    import regen
    buf = bytearray(rng.choice(alphabet) for _ in range(size))
    for _ in range(rng.range(1, 5)):
        s = regen.sample_match(rng, rng.choice(sexps))
        if rng.chance(1, 6) and len(s) > 1:
            s = s[:-1]
        if 0 < len(s) <= size:
            p = rng.choice([0, size - len(s), rng.below(size - len(s) + 1)])
            buf[p:p + len(s)] = s
    return bytes(buf)


def compare(chk, model, hscan, items, kind):
    """items: list of (decl_text, sexp, [buffers], meta). One rule per item, one string $a.
    returns (agree, total, nontriv set, rejected)"""
    cases = []
    for i, (decl, sexp, bufs, meta) in enumerate(items):
        src = "rule r { strings: $a = %s condition: $a }" % decl
        cases.append(("x%d" % i, ["newcompiler", "add " + hx(src.encode()), "getrules", "scanner 0"] + ["scan " + hx(b) for b in bufs]))
    out, err = vlib.run_cases(hscan, cases, timeout=3000, args=["120"], jobs=16)
    mq, order = [], []
    for i, (decl, sexp, bufs, meta) in enumerate(items):
        for bi, b in enumerate(bufs):
            mq.append("%s %s %s" % (meta.get("cmd", "re"), hx(b), meta.get("pat", sexp)))
            order.append((i, bi))
    mres, _ = vlib.run_lines(model, mq, timeout=3000)
    spec = dict(zip(order, mres))
    agree = total = rejected = 0
    nontriv = set()
    for i, (decl, sexp, bufs, meta) in enumerate(items):
        lines = out.get("x%d" % i, [])
        src = "rule r { strings: $a = %s condition: $a }" % decl
        if any(l.startswith("crash") for l in lines):
            chk.violation("crash:" + kind, "compiling/scanning %s crashes: %s" % (decl[:120], lines[-2:]), {"rule": src, "output": lines[-4:]})
            continue
        sc = [l for l in lines if l.startswith("scan msgs=")]
        if len(sc) != len(bufs):
            adds = [l for l in lines if l.startswith("add errors=")]
            if adds and adds[0] != "add errors=0":
                rejected += 1
                continue
            chk.violation("norun:" + kind, "scan did not run for %s: %s" % (decl[:120], lines[-3:]), {"rule": src}, found_input=False)
            continue
        for bi, b in enumerate(bufs):
            total += 1
            rcm = re.search(r" rc=(\d+)", sc[bi])
            if rcm and rcm.group(1) != "0":
                chk.add("scan_errors_excluded")      # a documented complexity limit was hit (e.g. too many fibers): outside C02/C03
                continue
            mm = re.search(r"[MN]:default:r:([^;]*);", sc[bi])
            impl = []
            if mm:
                for part in mm.group(1).split("|"):
                    if part.startswith("$a="):      # a chained string has one entry per piece; the matches hang on one of them
                        impl += [tuple(int(x) for x in e.split("/")) for e in part[3:].split(",") if e]
                impl.sort()
            sp = {}
            s_ = spec[(i, bi)]
            if s_.startswith("exception") or s_.startswith("unknown"):
                chk.violation("model:" + kind, "model runner failed: %s" % s_[:200], {"rule": src, "sexp": sexp}, found_input=False)
                continue
            partial = set()          # offsets where only some of the admissible lengths pass a filter (fullword): not demanded, not forbidden
            for ent in s_.split(";"):
                if ent:
                    o, ls = ent.split(":")
                    if ls.endswith("!"):
                        partial.add(int(o))
                        ls = ls[:-1]
                    sp[int(o)] = [int(x) for x in ls.split(",") if x]
            if partial:
                chk.add("offsets_with_partly_filtered_lengths", len(partial))
                impl_all = impl
                impl = [e for e in impl if e[0] not in partial]
                for e in impl_all:
                    if e[0] in partial and e[1] not in sp[e[0]]:
                        impl = impl + [e]       # reported with a length that does not pass the filter: still wrong
                impl.sort()
                sp = {o: ls for o, ls in sp.items() if o not in partial or any(e[0] == o for e in impl)}
            io = [e[0] for e in impl]
            replay = {"rule": src, "buffer_hex": hx(b), "impl": impl, "spec": s_, "meta": meta,
                      "how": "h_scan: newcompiler; add <rule>; getrules; scanner 0; scan <buffer_hex>"}
            bad = None
            if io != sorted(set(io)):
                bad = "offsets not strictly ascending: %s" % io
            elif set(io) != set(sp):
                missing = sorted(set(sp) - set(io))
                extra = sorted(set(io) - set(sp))
                bad = ("missed match(es) at %s " % missing[:4] if missing else "") + ("extra match(es) at %s" % extra[:4] if extra else "")
            else:
                for e in impl:
                    if e[1] not in sp[e[0]]:
                        bad = "offset %d reported with length %d, admissible: %s" % (e[0], e[1], sp[e[0]][:8])
                        break
            if bad:
                k2 = "missed" if "missed" in bad else "extra" if "extra" in bad else "length"
                key = "%s:%s" % (kind, k2)
                if k2 == "missed" and "extra" not in bad and meta.get("known_missed_key"):
                    key = meta["known_missed_key"]
                chk.violation(key, "%s on a %d-byte buffer: %s" % (decl[:160], len(b), bad), replay)
            else:
                agree += 1
                if sp:
                    nontriv.add((meta.get("shape"), min(len(sp), 3), min(sp) == 0))
    return agree, total, nontriv, rejected
