"""GenFold.v: compile-time folding actions of grammar.y and the VM cases of exec.c, translated
to Gallina over coq/Base/CSem.v on every run."""
import os, re
import gen, cexpr, build
from gen import GenError, REPO

FOLD_OPS = [  # (name, production head regex)
    ("add", r"primary_expression\s+'\+'\s+primary_expression"),
    ("sub", r"primary_expression\s+'-'\s+primary_expression"),
    ("mul", r"primary_expression\s+'\*'\s+primary_expression"),
    ("div", r"primary_expression\s+'\\\\'\s+primary_expression"),
    ("mod", r"primary_expression\s+'%'\s+primary_expression"),
    ("bxor", r"primary_expression\s+'\^'\s+primary_expression"),
    ("band", r"primary_expression\s+'&'\s+primary_expression"),
    ("bor", r"primary_expression\s+'\|'\s+primary_expression"),
    ("shl", r"primary_expression\s+_SHIFT_LEFT_\s+primary_expression"),
    ("shr", r"primary_expression\s+_SHIFT_RIGHT_\s+primary_expression"),
    ("neg", r"'-'\s+primary_expression\s+%prec\s+UNARY_MINUS"),
    ("bnot", r"'~'\s+primary_expression"),
]
VM_OPS = ["OP_INT_ADD", "OP_INT_SUB", "OP_INT_MUL", "OP_INT_DIV", "OP_MOD", "OP_BITWISE_XOR", "OP_BITWISE_AND",
          "OP_BITWISE_OR", "OP_SHL", "OP_SHR", "OP_INT_MINUS", "OP_BITWISE_NOT",
          "OP_INT_EQ", "OP_INT_NEQ", "OP_INT_LT", "OP_INT_GT", "OP_INT_LE", "OP_INT_GE", "OP_AND", "OP_OR", "OP_NOT"]
REDUCE_OPS = {"add": "+", "sub": "-", "mul": "*", "div": "\\\\"}


def match_brace(txt, i):
    """txt[i] == '{' ; returns index after the matching '}' skipping strings, chars and comments."""
    assert txt[i] == "{"
    depth = 0
    n = len(txt)
    while i < n:
        ch = txt[i]
        if ch == '"' or ch == "'":
            q = ch
            i += 1
            while i < n and txt[i] != q:
                if txt[i] == "\\":
                    i += 1
                i += 1
        elif txt.startswith("//", i):
            while i < n and txt[i] != "\n":
                i += 1
        elif txt.startswith("/*", i):
            i = txt.index("*/", i) + 1
        elif ch == "{":
            depth += 1
        elif ch == "}":
            depth -= 1
            if depth == 0:
                return i + 1
        i += 1
    raise GenError("translator cannot parse: unbalanced braces")


def production_body(txt, head_re):
    ms = list(re.finditer(r"\|\s*" + head_re + r"\s*\{", txt))
    if len(ms) != 1:
        raise GenError("translator cannot parse grammar.y: %d productions match %s" % (len(ms), head_re))
    i = ms[0].end() - 1
    j = match_brace(txt, i)
    return txt[i + 1:j - 1]


def case_body(txt, op):
    m = re.search(r"^\s*case\s+%s\s*:" % op, txt, re.M)
    if not m:
        raise GenError("translator cannot parse exec.c: no case " + op)
    j = m.end()
    # until the next 'case ' or 'default:' at the same nesting level
    depth = 0
    i = j
    while i < len(txt):
        if txt[i] == '"':
            i += 1
            while txt[i] != '"':
                if txt[i] == "\\":
                    i += 1
                i += 1
        elif txt[i] == "{":
            depth += 1
        elif txt[i] == "}":
            if depth == 0:
                break
            depth -= 1
        elif depth == 0 and re.match(r"(case\s+\w+\s*:|default\s*:)", txt[i:]):
            break
        i += 1
    return txt[j:i]


class Emitter:
    """statements -> Gallina term of type stmt"""

    def __init__(self, env, mode):
        self.env = dict(env)
        self.mode = mode    # 'fold' or 'vm'

    def ex(self, e):
        return "(fun s : fstate => %s)" % cexpr.emit_expr(e, self.env)

    def set_value(self, e):
        e = cexpr.expand_macros(e)
        if e[0] == "cond":
            return cexpr.emit_cond(e[1], self.env, self.set_value(e[2]), self.set_value(e[3]))
        return "(s_set_value %s)" % self.ex(e)

    def opaque_success(self, e):
        return e[0] == "call" and e[1] in ("yr_parser_emit", "yr_parser_reduce_operation", "yr_parser_emit_with_arg")

    def stmts(self, items):
        if not items:
            return "s_skip"
        s, rest = items[0], items[1:]
        k = s[0]
        if k == "decl":
            name, init = s[1], s[2]
            if name == "result":
                if init is None:
                    return self.stmts(rest)
                head = "(s_set_result (fun s : fstate => CVal 0))" if self.opaque_success(init) else \
                    "(s_set_result %s)" % self.ex(init)
                return "(s_seq %s %s)" % (head, self.stmts(rest))
            if init is None:
                raise GenError("translator cannot parse: uninitialised local " + name)
            v = cexpr.emit_expr(init, self.env)
            old = self.env.get(name)
            self.env[name] = name
            r = "(let %s := %s in %s)" % (name, v, self.stmts(rest))
            if old is None:
                del self.env[name]
            else:
                self.env[name] = old
            return r
        return "(s_seq %s %s)" % (self.stmt(s), self.stmts(rest)) if rest else self.stmt(s)

    def stmt(self, s):
        k = s[0]
        if k == "block":
            return self.stmts(s[1])
        if k == "if":
            return cexpr.emit_cond(s[1], self.env, self.stmt(s[2]), self.stmt(s[3]))
        if k == "break":
            return "s_stop"
        if k == "assign":
            tgt = cexpr.spelling(s[1])
            if tgt in ("$$.value.integer", "r1.i"):
                return self.set_value(s[2])
            if tgt == "r2.i":
                return "(s_set_result %s)" % self.ex(s[2])
            if tgt == "result":
                if self.opaque_success(s[2]):
                    return "(s_set_result (fun s : fstate => CVal 0))"
                return "(s_set_result %s)" % self.ex(s[2])
            if tgt == "$$.type":
                return "s_skip"
            raise GenError("translator cannot parse: assignment to %s" % tgt)
        if k == "expr":
            e = s[1]
            if e[0] == "call":
                f, args = e[1], e[2]
                if f in ("check_type", "yr_compiler_set_error_extra_info_fmt", "yr_compiler_set_error_extra_info",
                         "YR_DEBUG_FPRINTF", "push", "pop"):
                    return "s_skip"
                if f == "fail_if_error" and len(args) == 1:
                    if self.opaque_success(args[0]):
                        return "s_skip"
                    return "(s_fail_if %s)" % self.ex(args[0])
                if f == "ensure_defined" and len(args) == 1:
                    return cexpr.emit_cond(("call", "is_undef", [args[0]]), self.env,
                                           "(s_seq (s_set_value (fun s : fstate => CVal YR_UNDEFINED)) s_stop)", "s_skip")
            raise GenError("translator cannot parse statement %r" % (e,))
        raise GenError("translator cannot parse statement kind %s" % k)


COMMON_ENV = {"INT64_MAX": "(CVal INT64_MAX)", "INT64_MIN": "(CVal INT64_MIN)", "YR_UNDEFINED": "(CVal YR_UNDEFINED)",
              "ERROR_SUCCESS": "(CVal ERROR_SUCCESS)", "true": "(CVal 1)", "false": "(CVal 0)"}


@gen.register("GenFold.v")
def gen_fold():
    gy = open(os.path.join(REPO, "libyara", "grammar.y"), encoding="latin-1").read()
    ex = open(os.path.join(REPO, "libyara", "exec.c"), encoding="latin-1").read()
    out = ["(* GENERATED from libyara/grammar.y and libyara/exec.c by lib/genfold.py: do not edit *)\n",
           "From Coq Require Import ZArith List.\nFrom YV Require Import gen.GenConsts Base.CSem.\n",
           "Import ListNotations.\nLocal Open Scope Z_scope.\n\n"]
    consts = {}
    for m in re.finditer(r"^Definition (\w+) : Z", open(os.path.join(gen.GEN_DIR, "GenConsts.v")).read(), re.M):
        consts[m.group(1)] = True
    pairs = []
    for name, head in FOLD_OPS:
        body = production_body(gy, head)
        try:
            ast = cexpr.parse_stmts(body)
        except cexpr.ParseError as e:
            raise GenError("translator cannot parse grammar.y action of %s: %s" % (name, e))
        env = dict(COMMON_ENV)
        unary = name in ("neg", "bnot")
        for d in ("$1", "$2", "$3"):
            env[d + ".type"] = "(CVal EXPRESSION_TYPE_INTEGER)"
        env["EXPRESSION_TYPE_INTEGER"] = "(CVal EXPRESSION_TYPE_INTEGER)"
        env["EXPRESSION_TYPE_FLOAT"] = "(CVal EXPRESSION_TYPE_FLOAT)"
        env["result"] = "(CVal (f_result s))"
        if unary:
            env["$2.value.integer"] = "(CVal a)"
        else:
            env["$1.value.integer"] = "(CVal a)"
            env["$3.value.integer"] = "(CVal b)"
        for cname in re.findall(r"\bERROR_[A-Z_]+\b", body):
            if cname not in consts:
                raise GenError("translator: unknown constant " + cname)
            env[cname] = "(CVal %s)" % cname
        try:
            term = Emitter(env, "fold").stmt(ast)
        except cexpr.ParseError as e:
            raise GenError("translator cannot translate grammar.y action of %s: %s" % (name, e))
        args = "(a : Z)" if unary else "(a b : Z)"
        out.append("Definition fold_%s %s : foldres :=\n  run_stmt %s fold_result init_state.\n\n" % (name, args, term))
        # which opcode the production emits
        m = re.search(r"yr_parser_emit\(\s*yyscanner\s*,\s*(OP_\w+)", body)
        if m:
            pairs.append((name, m.group(1)))
        elif name in REDUCE_OPS:
            pairs.append((name, "reduce:" + REDUCE_OPS[name]))
        else:
            raise GenError("translator cannot tell which opcode the %s production emits" % name)
    for op in VM_OPS:
        body = case_body(ex, op)
        try:
            ast = cexpr.parse_stmts(body)
        except cexpr.ParseError as e:
            raise GenError("translator cannot parse exec.c case %s: %s" % (op, e))
        items = [s for s in ast[1] if not (s[0] == "expr" and s[1][0] == "call" and s[1][1] == "YR_DEBUG_FPRINTF")]
        pops = []
        while items and items[0][0] == "expr" and items[0][1][0] == "call" and items[0][1][1] == "pop":
            pops.append(cexpr.spelling(items[0][1][2][0]))
            items = items[1:]
        env = dict(COMMON_ENV)
        if pops == ["r2", "r1"]:
            unary = False
            env["r2.i"] = "(CVal (f_result s))"     # r2 lives in the (otherwise unused) result field of the state
        elif pops == ["r1"]:
            unary = True
        else:
            raise GenError("translator cannot parse exec.c case %s: unexpected pops %r" % (op, pops))
        env["r1.i"] = "(match f_value s with Some v => CVal v | None => CTrap end)"
        try:
            term = Emitter(env, "vm").stmts(items)
        except cexpr.ParseError as e:
            raise GenError("translator cannot translate exec.c case %s: %s" % (op, e))
        args = "(a : Z)" if unary else "(a b : Z)"
        out.append("Definition vm_%s %s : vmres :=\n  run_stmt %s vm_result {| f_result := %s; f_value := Some a; f_status := Running |}.\n\n"
                   % (op, args, term, "0" if unary else "b"))
    # opcode chosen by yr_parser_reduce_operation for integer operands: evaluated by running parser.c's own function
    b = build.ensure_build("plain")
    prog = '#include <stdio.h>\n#include "parser.c"\nint main(){\n' + "".join(
        'printf("%%s %%d\\n", "%s", _yr_parser_operator_to_opcode("%s", EXPRESSION_TYPE_INTEGER));\n' % (n, o)
        for n, o in REDUCE_OPS.items()) + "return 0;}\n"
    res, err = gen._compile_run(prog, extra_inc=[os.path.join(b, "libyara.a"), "-lcrypto", "-lm", "-lpthread"])
    if res is None:
        raise GenError("translator cannot evaluate _yr_parser_operator_to_opcode: " + err[:400])
    opc = dict(l.split() for l in res.strip().split("\n"))
    cv = {}
    for m in re.finditer(r"^Definition (\w+) : Z := \(?(-?\d+)\)?%Z", open(os.path.join(gen.GEN_DIR, "GenConsts.v")).read(), re.M):
        cv[m.group(1)] = int(m.group(2))
    out.append("(* the VM case executed for the opcode that each folding action emits (integer operands) *)\n")
    for name, op in pairs:
        num = cv[op] if not op.startswith("reduce:") else int(opc[name])
        cands = [v for v in VM_OPS if cv.get(v) == num]
        if len(cands) != 1:
            raise GenError("translator: production %s emits opcode %s which is not a modelled VM case" % (name, num))
        out.append("Definition vm_of_fold_%s := vm_%s.\n" % (name, cands[0]))
    return "".join(out)


@gen.register("GenTables.v")
def gen_tables():
    """character tables as the library computes them (after yr_initialize, "C" locale)"""
    b = build.ensure_build("plain")
    prog = ('#include <stdio.h>\n#include <yara.h>\n#include <yara/globals.h>\n#include <yara/strutils.h>\n'
            'int main(){ yr_initialize();\n'
            'printf("Definition lowercase_table : list N := [");for(int i=0;i<256;i++)printf("%s%d",i?";":"",yr_lowercase[i]);printf("]%%N.\\n");\n'
            'printf("Definition altercase_table : list N := [");for(int i=0;i<256;i++)printf("%s%d",i?";":"",yr_altercase[i]);printf("]%%N.\\n");\n'
            'printf("Definition isalnum_table : list bool := [");for(int i=0;i<256;i++){unsigned char c=i;printf("%s%s",i?";":"",yr_isalnum(&c)?"true":"false");}printf("].\\n");\n'
            'return 0;}\n')
    res, err = gen._compile_run(prog, extra_inc=[os.path.join(b, "libyara.a"), "-lcrypto", "-lm", "-lpthread"])
    if res is None:
        raise GenError("translator cannot evaluate character tables: " + err[:400])
    return ("(* GENERATED by lib/genfold.py from the library's own tables: do not edit *)\n"
            "From Coq Require Import NArith List.\nImport ListNotations.\n\n" + res)


TOKSYM = {"_OR_": "or", "_AND_": "and", "_NOT_": "not", "_DEFINED_": "defined", "_EQ_": "==", "_NEQ_": "!=",
          "_CONTAINS_": "contains", "_ICONTAINS_": "icontains", "_STARTSWITH_": "startswith", "_ENDSWITH_": "endswith",
          "_ISTARTSWITH_": "istartswith", "_IENDSWITH_": "iendswith", "_IEQUALS_": "iequals", "_MATCHES_": "matches",
          "_LT_": "<", "_LE_": "<=", "_GT_": ">", "_GE_": ">=", "'|'": "|", "'^'": "^", "'&'": "&",
          "_SHIFT_LEFT_": "<<", "_SHIFT_RIGHT_": ">>", "'+'": "+", "'-'": "-", "'*'": "*", "'\\\\'": "\\", "'%'": "%",
          "'~'": "~", "UNARY_MINUS": "neg"}


@gen.register("GenPrec.v")
def gen_prec():
    """operator precedence/associativity: grammar.y's %left/%right declarations and the manual's table"""
    gy = open(os.path.join(REPO, "libyara", "grammar.y"), encoding="latin-1").read()
    levels = []
    for m in re.finditer(r"^%(left|right)\s+(.*)$", gy, re.M):
        toks = m.group(2).split()
        syms = []
        for t in toks:
            if t not in TOKSYM:
                raise GenError("translator cannot map grammar token %s" % t)
            syms.append(TOKSYM[t])
        levels.append((sorted(syms), m.group(1)))
    levels.reverse()    # highest precedence first, like the manual
    doc = open(os.path.join(REPO, "docs", "writingrules.rst"), encoding="latin-1").read()
    i = doc.index("Precedence  Operator")
    tbl = doc[i:]
    tbl = tbl[tbl.index("\n") + 1:]
    tbl = tbl[tbl.index("\n") + 1:]          # skip the ==== line
    end = re.search(r"^==========", tbl, re.M).start()
    rows = []
    cur = None
    for line in tbl[:end].split("\n"):
        if line.startswith("----------"):
            cur = None
            continue
        if not line.strip():
            continue
        m = re.match(r"^(\d+)?\s+(\S+)\s+(.*?)(Left-to-right|Right-to-left)?\s*$", line)
        if not m:
            raise GenError("translator cannot parse manual precedence row %r" % line)
        op = m.group(2).strip("`")
        if m.group(1):
            cur = [[], "left" if m.group(4) == "Left-to-right" else "right"]
            rows.append(cur)
        if cur is None:
            raise GenError("translator cannot parse manual precedence table near %r" % line)
        desc = m.group(3)
        if op == "-" and "Unary" in desc:
            op = "neg"
        if op == "\\\\":
            op = "\\"
        cur[0].append(op)
    man = [(sorted(r[0]), r[1]) for r in rows if r[0] != ["[]", "."] and sorted(r[0]) != sorted(["[]", "."])]

    def fmt(lv):
        return "[" + "; ".join('([%s], %s)' % ("; ".join('"%s"' % s.replace("\\", "\\\\") if False else '"%s"' % s for s in ops),
                                                  "true" if assoc == "left" else "false") for ops, assoc in lv) + "]"
    return ("(* GENERATED by lib/genfold.py from libyara/grammar.y and docs/writingrules.rst: do not edit *)\n"
            "From Coq Require Import String List Bool.\nImport ListNotations.\nOpen Scope string_scope.\n\n"
            "(* (operators of one level, left associative?) from highest to lowest precedence *)\n"
            "Definition grammar_levels : list (list string * bool) :=\n  %s.\n\n"
            "Definition manual_levels : list (list string * bool) :=\n  %s.\n" % (fmt(levels), fmt(man)))
