"""Snapshot /repo's working tree, build libyara (+cli objects) with hooks on,
cache artefacts in /verif/_cache/<hash>-<variant>/ (at most KEEP kept).

Scratch copies live under /dev/shm (or $TMPDIR) and are removed after the build.
"""
import hashlib, os, shutil, subprocess, sys, tempfile, time, fcntl, glob
from concurrent.futures import ThreadPoolExecutor

REPO = os.environ.get("VERIF_REPO", "/repo")
VERIF = os.path.dirname(os.path.dirname(os.path.abspath(__file__)))
CACHE = os.path.join(VERIF, "_cache")
KEEP = 3

SRC_DIRS = ["libyara", "cli"]
EXTS = (".c", ".h", ".y", ".l")

CORE = """ahocorasick arena atoms base64 bitmask compiler endian exec exefiles filemap hash
libyara mem modules notebook object parser proc re rules scan scanner simple_str sizedstr stack
stopwatch strutils stream threading tlshc/tlsh tlshc/tlsh_impl tlshc/tlsh_util proc/linux""".split()
GENERATED = ["grammar", "hex_grammar", "re_grammar", "lexer", "hex_lexer", "re_lexer"]
MODULES = """modules/tests/tests modules/elf/elf modules/math/math modules/time/time modules/pe/pe
modules/pe/pe_utils modules/console/console modules/string/string modules/hash/hash modules/dotnet/dotnet
modules/macho/macho modules/dex/dex
modules/pe/authenticode-parser/authenticode modules/pe/authenticode-parser/certificate
modules/pe/authenticode-parser/helper modules/pe/authenticode-parser/countersignature
modules/pe/authenticode-parser/structs""".split()

DEFS = ['-DPACKAGE_NAME="yara"', '-DPACKAGE_VERSION="4.5.2"', '-DPACKAGE_STRING="yara 4.5.2"',
        '-DPACKAGE="yara"', '-DVERSION="4.5.2"', "-DYYTEXT_POINTER=1", "-DHAVE_STDIO_H=1",
        "-DHAVE_STDLIB_H=1", "-DHAVE_STRING_H=1", "-DHAVE_INTTYPES_H=1", "-DHAVE_STDINT_H=1",
        "-DHAVE_STRINGS_H=1", "-DHAVE_SYS_STAT_H=1", "-DHAVE_SYS_TYPES_H=1", "-DHAVE_UNISTD_H=1",
        "-DSTDC_HEADERS=1", "-DHAVE_DLFCN_H=1", "-DHAVE_LIBM=1", "-DHAVE_MEMMEM=1", "-DHAVE_TIMEGM=1",
        "-DHAVE_CLOCK_GETTIME=1", "-DHAVE_STDBOOL_H=1", "-DHAVE_OPENSSL_EVP_H=1",
        "-DHAVE_OPENSSL_ASN1_H=1", "-DHAVE_OPENSSL_CRYPTO_H=1", "-DHAVE_OPENSSL_BIO_H=1",
        "-DHAVE_OPENSSL_PKCS7_H=1", "-DHAVE_OPENSSL_X509_H=1", "-DHAVE_OPENSSL_SAFESTACK_H=1",
        "-DHAVE_LIBCRYPTO=1", "-DHAVE_SCAN_PROC_IMPL=1",
        "-DUSE_LINUX_PROC", "-DDOTNET_MODULE", "-DHASH_MODULE", "-DMACHO_MODULE", "-DDEX_MODULE",
        "-DBUCKETS_128=1", "-DCHECKSUM_1B=1", "-D_GNU_SOURCE", "-DYARA_VERIF"]

VARIANTS = {
    "plain": ["-O1", "-g"],
    # UBSan in recovering mode: reports (signed overflow in llabs(INT64_MIN) etc.) are collected from stderr, not fatal
    "asan": ["-O1", "-g", "-fsanitize=address,undefined", "-fno-omit-frame-pointer"],
    "tsan": ["-O1", "-g", "-fsanitize=thread"],
}
LIBS = ["-lcrypto", "-lm", "-lpthread"]


def _files():
    out = []
    for d in SRC_DIRS:
        for root, dirs, files in os.walk(os.path.join(REPO, d)):
            dirs[:] = [x for x in dirs if x not in (".libs", ".deps")]
            for f in files:
                if f.endswith(EXTS) or f == "module_list":
                    out.append(os.path.relpath(os.path.join(root, f), REPO))
    return sorted(out)


def tree_hash():
    h = hashlib.sha256()
    for rel in _files():
        h.update(rel.encode() + b"\0")
        with open(os.path.join(REPO, rel), "rb") as f:
            h.update(hashlib.sha256(f.read()).digest())
    h.update(repr(DEFS).encode())
    return h.hexdigest()[:16]


def scratch_root():
    for d in ("/dev/shm", os.environ.get("TMPDIR", ""), "/tmp"):
        if d and os.path.isdir(d) and os.access(d, os.W_OK):
            return d
    return tempfile.gettempdir()


def _run(cmd, cwd=None):
    p = subprocess.run(cmd, cwd=cwd, stdout=subprocess.PIPE, stderr=subprocess.STDOUT, text=True)
    return p.returncode, p.stdout


def _git_head_blob(rel):
    p = subprocess.run(["git", "-C", REPO, "show", "HEAD:" + rel], stdout=subprocess.PIPE,
                       stderr=subprocess.DEVNULL)
    return p.stdout if p.returncode == 0 else None


def _regen(scratch, log):
    """Mimic make: regenerate parser/lexer C files from .y/.l when the .y/.l differs from
    git HEAD (edited) or the .c is missing; otherwise keep the tree's .c."""
    ly = os.path.join(scratch, "libyara")
    for g in GENERATED:
        ext = ".y" if g.endswith("grammar") else ".l"
        src = os.path.join(ly, g + ext)
        cur = open(src, "rb").read()
        head = _git_head_blob("libyara/" + g + ext)
        cfile = os.path.join(ly, g + ".c")
        if head == cur and os.path.exists(cfile):
            continue
        if ext == ".y":
            rc, out = _run(["bison", "-d", "-Wno-yacc", "-o", g + ".c", g + ".y"], cwd=ly)
        else:
            rc, out = _run(["flex", "-o", g + ".c", g + ".l"], cwd=ly)
            # the lexers say %option outfile="lex.yy.c", which overrides -o: do what automake's ylwrap does
            if rc == 0 and os.path.exists(os.path.join(ly, "lex.yy.c")):
                os.replace(os.path.join(ly, "lex.yy.c"), os.path.join(ly, g + ".c"))
        log.append("regen %s rc=%d %s" % (g, rc, out[-400:]))
        if rc != 0:
            raise BuildError("cannot regenerate %s: %s" % (g, out))


class BuildError(Exception):
    pass


def ensure_build(variant="plain", verbose=False):
    """Returns the cache dir holding libyara.a, cli objects and include path info."""
    os.makedirs(CACHE, exist_ok=True)
    th = tree_hash()
    dest = os.path.join(CACHE, "%s-%s" % (th, variant))
    lock = open(os.path.join(CACHE, ".lock"), "w")
    fcntl.flock(lock, fcntl.LOCK_EX)
    try:
        if os.path.exists(os.path.join(dest, "libyara.a")):
            os.utime(dest, None)
            return dest
        t0 = time.time()
        scratch = tempfile.mkdtemp(prefix="verif-build.", dir=scratch_root())
        log = []
        try:
            for rel in _files():
                d = os.path.join(scratch, rel)
                os.makedirs(os.path.dirname(d), exist_ok=True)
                shutil.copy2(os.path.join(REPO, rel), d)
            _regen(scratch, log)
            cflags = VARIANTS[variant] + DEFS + ["-w", "-fvisibility=hidden",
                                                 "-I" + os.path.join(scratch, "libyara/include"),
                                                 "-I" + os.path.join(scratch, "libyara")]
            objs = []
            jobs = []
            for m in CORE + GENERATED + MODULES:
                src = os.path.join(scratch, "libyara", m + ".c")
                if not os.path.exists(src):
                    raise BuildError("missing source " + src)
                o = os.path.join(scratch, "obj", m.replace("/", "_") + ".o")
                objs.append(o)
                jobs.append(["gcc", "-c"] + cflags + ["-o", o, src])
            os.makedirs(os.path.join(scratch, "obj"), exist_ok=True)
            # cli objects: yara.c with main renamed, threading separate so that a shim can replace it
            cli = {"yara": ["-Dmain=yara_main"], "yarac": ["-Dmain=yarac_main"], "args": [], "common": [],
                   "threading": []}
            cliobjs = []
            for c, extra in cli.items():
                o = os.path.join(scratch, "obj", "cli_" + c + ".o")
                cliobjs.append(o)
                jobs.append(["gcc", "-c"] + cflags + extra + ["-I" + os.path.join(scratch, "cli"), "-o", o,
                                                              os.path.join(scratch, "cli", c + ".c")])
            with ThreadPoolExecutor(16) as ex:
                res = list(ex.map(lambda j: _run(j), jobs))
            for j, (rc, out) in zip(jobs, res):
                if rc != 0:
                    raise BuildError("compile failed: %s\n%s" % (" ".join(j[-3:]), out[-3000:]))
            tmpd = dest + ".tmp%d" % os.getpid()
            shutil.rmtree(tmpd, ignore_errors=True)
            os.makedirs(tmpd)
            rc, out = _run(["ar", "rcs", os.path.join(tmpd, "libyara.a")] + objs)
            if rc != 0:
                raise BuildError("ar failed " + out)
            for o in cliobjs:
                shutil.copy2(o, tmpd)
            # generated headers a harness may need (grammar.h etc.) and a copy of include trees
            inc = os.path.join(tmpd, "include")
            shutil.copytree(os.path.join(scratch, "libyara/include"), inc)
            os.makedirs(os.path.join(tmpd, "libyara"))
            for f in glob.glob(os.path.join(scratch, "libyara", "*.h")):
                shutil.copy2(f, os.path.join(tmpd, "libyara"))
            shutil.copytree(os.path.join(scratch, "libyara/modules"), os.path.join(tmpd, "libyara/modules"),
                            ignore=shutil.ignore_patterns("*.c", "*.o", "*.lo"))
            os.makedirs(os.path.join(tmpd, "cli"))
            for f in glob.glob(os.path.join(scratch, "cli", "*.h")):
                shutil.copy2(f, os.path.join(tmpd, "cli"))
            with open(os.path.join(tmpd, "build.log"), "w") as f:
                f.write("\n".join(log) + "\nbuilt in %.1fs\n" % (time.time() - t0))
            with open(os.path.join(tmpd, "flags"), "w") as f:
                f.write(" ".join(VARIANTS[variant] + DEFS))
            os.rename(tmpd, dest)
        finally:
            shutil.rmtree(scratch, ignore_errors=True)
        _prune()
        if verbose:
            print("built %s in %.1fs" % (dest, time.time() - t0), file=sys.stderr)
        return dest
    finally:
        fcntl.flock(lock, fcntl.LOCK_UN)
        lock.close()


def _prune():
    ds = [d for d in glob.glob(os.path.join(CACHE, "*-*")) if os.path.isdir(d) and ".tmp" not in d]
    by = {}
    for d in ds:
        by.setdefault(d.rsplit("-", 1)[1], []).append(d)
    for v, lst in by.items():
        lst.sort(key=lambda d: os.path.getmtime(d), reverse=True)
        for d in lst[KEEP:]:
            shutil.rmtree(d, ignore_errors=True)


def harness(name, variant="plain", extra_src=(), extra_flags=(), link_cli=False):
    """Compile /verif/harness/<name>.c against the cached libyara.a; returns binary path."""
    b = ensure_build(variant)
    srcs = [os.path.join(VERIF, "harness", name + ".c")] + [os.path.join(VERIF, "harness", s) for s in extra_src]
    h = hashlib.sha256()
    for s in srcs + [os.path.join(VERIF, "harness", "hcommon.h")]:
        if os.path.exists(s):
            h.update(open(s, "rb").read())
    h.update(repr(extra_flags).encode())
    out = os.path.join(b, "%s-%s" % (name, h.hexdigest()[:10]))
    if os.path.exists(out):
        return out
    cmd = ["gcc"] + VARIANTS[variant] + DEFS + ["-w", "-I" + os.path.join(b, "include"),
                                                "-I" + os.path.join(b, "libyara"), "-I" + os.path.join(b, "cli"),
                                                "-I" + os.path.join(VERIF, "harness")] + list(extra_flags) + \
          ["-o", out + ".tmp%d" % os.getpid()] + srcs
    if link_cli:
        cmd += [os.path.join(b, "cli_%s.o" % c) for c in link_cli]
    cmd += [os.path.join(b, "libyara.a")] + LIBS
    rc, outp = _run(cmd)
    if rc != 0:
        raise BuildError("harness %s failed to compile:\n%s" % (name, outp[-4000:]))
    os.rename(out + ".tmp%d" % os.getpid(), out)
    return out


if __name__ == "__main__":
    v = sys.argv[1] if len(sys.argv) > 1 else "plain"
    print(ensure_build(v, verbose=True))
