"""Random regular expressions and hex strings: the generator owns an AST, prints it in YARA syntax
and as an s-expression for the Gallina reference (Spec/RegexSpec.v)."""

ALPHA = b"abcxyzABC019 _-"


# ------------------------------------------------------------------ regex AST
class ReGen:
    def __init__(self, rng, nocase=False, dotall=False, allow_anchor=True):
        self.r = rng
        self.nocase = nocase
        self.dotall = dotall
        self.allow_anchor = allow_anchor

    def char(self):
        return self.r.choice(ALPHA)

    def atom(self):
        r = self.r
        k = r.below(20)
        if k < 9:
            return ("lit", self.char())
        if k < 10:
            return ("lit", r.choice([0x00, 0x0A, 0x2E, 0x5C, 0xFF, 0x80, 0x28, 0x7C]))
        if k < 12:
            return ("any",)
        if k < 15:
            items = []
            for _ in range(r.range(1, 3)):
                c = r.below(5)
                if c == 0:
                    a = self.char()
                    items.append((a, a))
                elif c == 1:
                    if r.chance(1, 4):
                        # ranges at the ends of the byte range
                        items.append(r.choice([(0x80, 0xff), (0x00, 0xff), (0xf0, 0xff), (0xfe, 0xff), (0xff, 0xff), (0x00, 0x1f), (0x00, 0x00), (0x7f, 0x80)]))
                    else:
                        lo = r.choice(b"aA0xzZ")
                        items.append((lo, min(255, lo + r.below(6))))
                else:
                    items.append(r.choice(["w", "s", "d", "W", "S", "D"]))
            return ("class", r.chance(1, 4), items)
        if k < 18:
            return ("esc", r.choice(["w", "W", "s", "S", "d", "D"]))
        if self.allow_anchor:
            return (r.choice(["wb", "nwb", "wb", "start", "end"]),)
        return ("lit", self.char())

    def gen(self, d):
        r = self.r
        k = r.below(10)
        if d <= 0 or k < 2:
            return self.atom()
        if k < 6:
            return ("cat", self.gen(d - 1), self.gen(d - 1))
        if k < 7:
            return ("alt", self.gen(d - 1), self.gen(d - 1) if r.chance(5, 6) else ("empty",))
        greedy = r.chance(1, 2)
        sub = self.gen(d - 1)
        if zero_width_only(sub):
            # quantified zero-width assertions make the engine run out of fibers or hang (known finding): not generated
            sub = ("cat", sub, ("lit", self.char()))
        q = r.below(6)
        if q == 0:
            return ("star", sub, greedy)
        if q == 1:
            return ("plus", sub, greedy)
        if q == 2:
            return ("opt", sub, greedy)
        n = r.below(4)
        c = r.below(3)
        if c == 0:
            return ("rep", sub, n, n, greedy)
        if c == 1:
            return ("rep", sub, n, None, greedy)
        return ("rep", sub, n, n + r.below(4), greedy)

    def lit_dot_run(self):
        """a run of literal and dot nodes in which a short literal (1..3 bytes) has dots on both sides, so that the best atom window
        starts or ends with wildcards that the atom extractor trims, followed / preceded by something that is not part of the run"""
        r = self.r

        def chain(nodes):
            e = None
            for n in reversed(nodes):
                e = n if e is None else ("cat", n, e)
            return e
        nodes = [("any",) for _ in range(r.range(1, 2))] + [("lit", r.choice(b"abcxyz019")) for _ in range(r.range(1, 3))] + \
                [("any",) for _ in range(r.range(1, 2))]
        if r.chance(1, 3):
            nodes = [("lit", r.choice(b"abcxyz019"))] + nodes
        if r.chance(1, 3):
            nodes = nodes + [("lit", r.choice(b"abcxyz019")) for _ in range(r.range(1, 2))]
        run = chain(nodes)
        tail = r.choice([("esc", "d"), ("class", False, [(0x30, 0x39)]), ("lit", r.choice(b"!_")), ("alt", ("lit", 0x5A), ("lit", 0x7A))])
        k = r.below(5)
        if k == 0:
            return ("cat", run, tail)
        if k == 1:
            return ("cat", ("alt", chain([("lit", c) for c in b"foo"]), run), tail)
        if k == 2:
            return ("cat", ("rep", run, 2, 2, True), tail)
        if k == 3:
            return ("cat", self.gen(1), ("cat", run, tail))
        return ("cat", run, ("cat", tail, self.gen(1)))

    def with_literal(self, d):
        """make sure the expression contains a literal run so that the compiler finds an atom"""
        if self.r.chance(1, 6):
            return self.lit_dot_run()
        if self.r.chance(1, 12):
            # several bounded dot repeats on one path, the first used to its maximum: /a.{2}b.{3}c/, /x.?y.?z/
            r = self.r

            def dots():
                c = r.below(3)
                if c == 0:
                    n = r.range(1, 3)
                    return ("rep", ("any",), n, n, True)
                if c == 1:
                    return ("opt", ("any",), True)
                n = r.below(3)
                return ("rep", ("any",), n, n + r.range(1, 2), True)
            e = ("lit", r.choice(b"abc"))
            for _ in range(r.range(2, 3)):
                e = ("cat", e, ("cat", dots(), ("lit", r.choice(b"xyz019"))))
            return e
        if self.r.chance(1, 12):
            # two literal runs separated by a lazy range of dots with bounds beyond the chaining threshold: the engine may split the
            # string there, the dot still has to refuse newlines without /s
            r = self.r
            l1 = ("cat", ("lit", r.choice(b"abc")), ("lit", r.choice(b"xyz")))
            l2 = ("cat", ("lit", r.choice(b"019")), ("lit", r.choice(b"abc")))
            n = r.choice([0, 1, 2, 210])
            m = r.choice([None, None, 201, 250]) if n < 210 else r.choice([None, 230])
            return ("cat", l1, ("cat", ("rep", ("any",), n, m, False), l2))
        lit = None
        for _ in range(self.r.range(2, 4)):
            c = ("lit", self.r.choice(b"abcxyz019"))
            lit = c if lit is None else ("cat", lit, c)
        k = self.r.below(3)
        if k == 0:
            return ("cat", lit, self.gen(d))
        if k == 1:
            return ("cat", self.gen(d), lit)
        return ("cat", self.gen(d - 1), ("cat", lit, self.gen(d - 1)))


def zero_width_only(e):
    k = e[0]
    if k in ("start", "end", "wb", "nwb", "empty"):
        return True
    if k in ("cat", "alt"):
        return zero_width_only(e[1]) and zero_width_only(e[2])
    if k in ("star", "plus", "opt", "rep"):
        return zero_width_only(e[1])
    return False


def esc_char(c):
    if c < 128 and (chr(c).isalnum() or c in b" _"):
        return chr(c)
    return "\\x%02x" % c


def re_print(e, top=True):
    k = e[0]
    if k == "lit":
        return esc_char(e[1])
    if k == "any":
        return "."
    if k == "esc":
        return "\\" + e[1]
    if k == "class":
        s = "[" + ("^" if e[1] else "")
        for it in e[2]:
            if isinstance(it, str):
                s += "\\" + it
            elif it[0] == it[1]:
                s += esc_char(it[0]) if it[0] not in b"-]^\\" else "\\x%02x" % it[0]
            else:
                s += "%s-%s" % ("\\x%02x" % it[0], "\\x%02x" % it[1])
        return s + "]"
    if k == "empty":
        return ""
    if k == "cat":
        return re_atomize(e[1], "cat") + re_atomize(e[2], "cat")
    if k == "alt":
        return "(" + re_print(e[1]) + "|" + re_print(e[2]) + ")"
    if k in ("star", "plus", "opt"):
        q = {"star": "*", "plus": "+", "opt": "?"}[k]
        return re_atomize(e[1], "q") + q + ("" if e[2] else "?")
    if k == "rep":
        a = re_atomize(e[1], "q")
        if e[3] is None:
            q = "{%d,}" % e[2]
        elif e[2] == e[3]:
            q = "{%d}" % e[2]
        else:
            q = "{%d,%d}" % (e[2], e[3])
        return a + q + ("" if e[4] else "?")
    if k == "start":
        return "^"
    if k == "end":
        return "$"
    if k == "wb":
        return "\\b"
    if k == "nwb":
        return "\\B"
    raise ValueError(k)


def re_atomize(e, ctx):
    s = re_print(e)
    if ctx == "q":
        if e[0] in ("lit", "any", "esc", "class"):
            return s
        return "(" + s + ")"
    if e[0] == "alt":
        return s      # already parenthesised
    return s


def cset_sexp(e, nocase, dotall):
    k = e[0]
    if k == "lit":
        s = "( b %d )" % e[1]
    elif k == "any":
        return "( any )" if dotall else "( anynl )"
    elif k == "esc":
        base = {"w": "( w )", "s": "( s )", "d": "( d )"}[e[1].lower()]
        return base if e[1].islower() else "( not %s )" % base
    elif k == "class":
        parts = []
        for it in e[2]:
            if isinstance(it, str):
                base = {"w": "( w )", "s": "( s )", "d": "( d )"}[it.lower()]
                parts.append(base if it.islower() else "( not %s )" % base)
            else:
                p = "( rng %d %d )" % (it[0], it[1])
                parts.append("( nc %s )" % p if nocase else p)
        s = parts[0]
        for p in parts[1:]:
            s = "( un %s %s )" % (s, p)
        return "( not %s )" % s if e[1] else s
    else:
        raise ValueError(k)
    return "( nc %s )" % s if nocase else s


def re_sexp(e, nocase=False, dotall=False):
    k = e[0]
    if k in ("lit", "any", "esc", "class"):
        return "( set %s )" % cset_sexp(e, nocase, dotall)
    if k == "empty":
        return "( e )"
    if k in ("cat", "alt"):
        return "( %s %s %s )" % (k, re_sexp(e[1], nocase, dotall), re_sexp(e[2], nocase, dotall))
    if k == "star":
        return "( star %s )" % re_sexp(e[1], nocase, dotall)
    if k == "plus":
        a = re_sexp(e[1], nocase, dotall)
        return "( cat %s ( star %s ) )" % (a, a)
    if k == "opt":
        return "( rep %s 0 1 )" % re_sexp(e[1], nocase, dotall)
    if k == "rep":
        return "( rep %s %d %s )" % (re_sexp(e[1], nocase, dotall), e[2], "inf" if e[3] is None else str(e[3]))
    return {"start": "( bol )", "end": "( eol )", "wb": "( wb )", "nwb": "( nwb )"}[k]


# ------------------------------------------------------------------ hex strings
class HexGen:
    def __init__(self, rng):
        self.r = rng
        self.aim = []

    def byte_tok(self):
        r = self.r
        k = r.below(12)
        b = r.choice(ALPHA) if r.chance(3, 4) else r.below(256)
        if k < 7:
            return ("b", b)
        if k < 8:
            return ("any",)
        if k < 9:
            return ("mask", b & 0xF0, 0xF0) if r.chance(1, 2) else ("mask", b & 0x0F, 0x0F)
        if k < 10:
            return ("notb", b)
        if k < 11:
            return ("notmask", b & 0xF0, 0xF0) if r.chance(1, 2) else ("notmask", b & 0x0F, 0x0F)
        return ("b", b)

    def seq(self, n, depth, in_alt=False):
        r = self.r
        toks = [self.byte_tok() if i else ("b", r.choice(ALPHA)) for i in range(1)]
        for i in range(n):
            k = r.below(10)
            if k < 6:
                toks.append(self.byte_tok())
            elif k < 8 and i < n - 1:
                a = r.choice([0, 1, 2, 3, 5])
                c = r.below(6)
                if in_alt:
                    toks.append(("jump", a, a + r.below(4)))
                elif c == 0:
                    toks.append(("jump", a, a))
                elif c == 1:
                    toks.append(("jump", a, None))
                elif c == 2:
                    base = r.choice([197, 198, 199, 200, 201, 202])
                    toks.append(("jump", r.below(3), base + r.below(3)))     # around the chaining threshold
                else:
                    toks.append(("jump", a, a + r.below(5)))
                toks.append(("b", r.choice(ALPHA)))
            elif depth > 0:
                alts = [self.seq(r.range(0, 2), depth - 1, True) for _ in range(r.range(2, 3))]
                toks.append(("alt", alts))
            else:
                toks.append(self.byte_tok())
        if toks[-1][0] == "jump":
            toks.append(("b", r.choice(ALPHA)))
        return toks

    def wild_run(self):
        """a short literal run (2..3 bytes) between wildcards inside a run of >= 5 simple tokens: the atom extractor trims the wildcards
        of the best window"""
        r = self.r
        toks = [("b", r.choice(ALPHA))] if r.chance(1, 2) else []
        toks += [("any",) for _ in range(r.range(1, 2))] + [("b", r.choice(ALPHA)) for _ in range(r.range(2, 3))] + [("any",) for _ in range(r.range(1, 2))]
        toks += [r.choice([("mask", 0x30, 0xF0), ("b", r.choice(ALPHA)), ("alt", [[("b", 0x5A)], [("b", 0x7A)]])])]
        if r.chance(1, 3):
            toks += self.seq(r.range(0, 2), 1)
        return toks

    def two_entry_jump(self):
        """a bounded jump that one verification can enter at two offsets (after alternatives of different lengths, or after an earlier
        jump whose next token occurs twice), so that a match may need the later entry with a gap at the upper bound"""
        r = self.r
        head = [("b", c) for c in r.choice([b"abcd", b"wxyz", b"0123"])]
        x, y, z = r.choice(b"XQ"), r.choice(b"YV"), r.choice(b"ZK")
        lo = r.range(0, 2)
        hi = lo + r.range(1, 3)
        hb = bytes(t[1] for t in head)
        fill = lambda n: bytes([0x71]) * n
        if r.chance(1, 2):
            toks = head + [("alt", [[("b", x)], [("b", x), ("b", y)]])] + [("jump", lo, hi), ("b", z)]
            # only the longer alternative reaches z: gap hi after "x y" (hi + 1 after "x")
            self.aim = [hb + bytes([x, y]) + fill(g) + bytes([z]) for g in (hi, hi - 1, hi + 1, lo)]
        else:
            j0 = r.range(1, 2)
            toks = head + [("jump", 0, j0), ("b", x), ("jump", lo, hi), ("alt", [[("b", z)], [("b", z + 32)]])]
            # x occurs twice; only the second occurrence is within [lo, hi] of z
            self.aim = [hb + bytes([x, x]) + fill(g) + bytes([z]) for g in (hi, hi - 1, hi + 1, lo)]
        return toks

    def several_candidates(self):
        """an alternative (so the general matcher runs) followed by a bounded jump; data with SEVERAL candidates in one scan: the first is
        satisfied through the jump early (threads still counting the gap are abandoned), later ones have a gap below the minimum, at the
        minimum and at the maximum -- a verification must not inherit anything from the one before it"""
        r = self.r
        a, b = r.choice(b"AEM"), r.choice(b"BFN")
        run = [("b", r.choice(b"cdgh")) for _ in range(r.range(3, 4))]
        lo = r.range(2, 4)
        hi = lo + r.range(1, 3)
        z = r.choice(b"DZK")
        toks = [("alt", [[("b", a)], [("b", b)]])] + run + [("jump", lo, hi), ("b", z)]
        if r.chance(1, 3):
            toks = run + [("jump", lo, hi), ("alt", [[("b", z)], [("b", z + 32)]])]
            head = bytes(t[1] for t in run)
        else:
            head = bytes([a]) + bytes(t[1] for t in run)
        fill = lambda n: bytes(r.choice(b"qrstuv") for _ in range(n))
        cand = lambda g: head + fill(g) + bytes([z])
        self.aim = [cand(lo) + b"...." + cand(0) + b"....." + cand(max(lo - 1, 0)) + b"..." + cand(hi) + b".." + cand(hi + 1),
                    cand(lo) + cand(1) + cand(lo) + cand(0) + cand(hi),
                    cand(hi) + b"." + cand(lo - 1) + b"." + cand(lo)]
        return toks

    def gen(self):
        k = self.r.below(12)
        if k == 0:
            return self.wild_run()
        if k == 1:
            return self.two_entry_jump()
        if k == 2:
            return self.several_candidates()
        return self.seq(self.r.range(1, 7), 2)


def hex_print(toks):
    out = []
    for t in toks:
        k = t[0]
        if k == "b":
            out.append("%02X" % t[1])
        elif k == "any":
            out.append("??")
        elif k == "mask":
            out.append(("%X?" % (t[1] >> 4)) if t[2] == 0xF0 else ("?%X" % t[1]))
        elif k == "notb":
            out.append("~%02X" % t[1])
        elif k == "notmask":
            out.append(("~%X?" % (t[1] >> 4)) if t[2] == 0xF0 else ("~?%X" % t[1]))
        elif k == "jump":
            if t[2] is None:
                out.append("[%d-]" % t[1])
            elif t[1] == t[2]:
                out.append("[%d]" % t[1])
            else:
                out.append("[%d-%d]" % (t[1], t[2]))
        elif k == "alt":
            out.append("( " + " | ".join(hex_print(a) for a in t[1]) + " )")
    return " ".join(out)


def hex_sexp(toks):
    def one(t):
        k = t[0]
        if k == "b":
            return "( set ( b %d ) )" % t[1]
        if k == "any":
            return "( set ( any ) )"
        if k == "mask":
            return "( set ( mask %d %d ) )" % (t[1], t[2])
        if k == "notb":
            return "( set ( not ( b %d ) ) )" % t[1]
        if k == "notmask":
            return "( set ( not ( mask %d %d ) ) )" % (t[1], t[2])
        if k == "jump":
            return "( rep ( set ( any ) ) %d %s )" % (t[1], "inf" if t[2] is None else str(t[2]))
        if k == "alt":
            s = hex_sexp(t[1][0])
            for a in t[1][1:]:
                s = "( alt %s %s )" % (s, hex_sexp(a))
            return s
    s = None
    for t in reversed(toks):
        s = one(t) if s is None else "( cat %s %s )" % (one(t), s)
    return s or "( e )"


def hex_pat(toks):
    """the token language of the interval-based hex reference (ocaml/cmds/42_hexfast.ml, Spec/HexSpec.v)"""
    out = []
    for t in toks:
        k = t[0]
        if k == "b":
            out.append("t ( b %d )" % t[1])
        elif k == "any":
            out.append("t ( any )")
        elif k == "mask":
            out.append("t ( mask %d %d )" % (t[1], t[2]))
        elif k == "notb":
            out.append("t ( not ( b %d ) )" % t[1])
        elif k == "notmask":
            out.append("t ( not ( mask %d %d ) )" % (t[1], t[2]))
        elif k == "jump":
            out.append("ji %d" % t[1] if t[2] is None else "j %d %d" % (t[1], t[2]))
        elif k == "alt":
            out.append("a " + " ".join("[ %s ]" % hex_pat(a) for a in t[1]) + " ;")
    return " ".join(out)


def sample_match(rng, sexp_tokens, maxlen=40):
    """a byte string in the language (best effort), used to plant occurrences"""
    toks = sexp_tokens.split()
    pos = [0]

    def cset():
        assert toks[pos[0]] == "("
        k = toks[pos[0] + 1]
        if k == "b":
            v = int(toks[pos[0] + 2]); pos[0] += 4; return lambda b: b == v
        if k in ("any", "anynl", "w", "s", "d"):
            pos[0] += 3
            return {"any": lambda b: True, "anynl": lambda b: b != 10, "w": lambda b: chr(b).isalnum() and b < 128 or b == 95,
                    "s": lambda b: b == 32 or 9 <= b <= 13, "d": lambda b: 48 <= b <= 57}[k]
        if k == "mask":
            v, m = int(toks[pos[0] + 2]), int(toks[pos[0] + 3]); pos[0] += 5; return lambda b: (b & m) == v
        if k == "rng":
            lo, hi = int(toks[pos[0] + 2]), int(toks[pos[0] + 3]); pos[0] += 5; return lambda b: lo <= b <= hi
        if k == "un":
            pos[0] += 2; a = cset(); b_ = cset(); pos[0] += 1; return lambda b: a(b) or b_(b)
        if k == "not":
            pos[0] += 2; a = cset(); pos[0] += 1; return lambda b: not a(b)
        if k == "nc":
            pos[0] += 2; a = cset(); pos[0] += 1; return lambda b: a(b) or a(b ^ 0x20 if chr(b).isalpha() and b < 128 else b)
        raise ValueError(k)

    def node():
        assert toks[pos[0]] == "("
        k = toks[pos[0] + 1]
        if k == "e" or k in ("bol", "eol", "wb", "nwb"):
            pos[0] += 3
            return b""
        if k == "set":
            pos[0] += 2
            f = cset()
            pos[0] += 1
            allc = [b for b in range(256) if f(b)]
            cands = [b for b in ALPHA if f(b)] or allc
            high = [b for b in allc if b >= 0x80]
            if high and rng.chance(1, 5):
                return bytes([rng.choice([high[0], high[-1], rng.choice(high)])])      # the upper half of the byte range
            if allc and rng.chance(1, 3):
                # the extreme members of the set: lowest, highest, high/low nibble F or 0, and the other case of letters
                ext = [allc[0], allc[-1]] + [b for b in allc if b & 0x0F in (0, 15) or b >> 4 in (0, 15)][:8] + [b for b in allc if chr(b) in "zZaA\n\r"] + \
                      [b for b in allc if b >= 0x80][:2]
                return bytes([rng.choice(ext)])
            return bytes([rng.choice(cands)]) if cands else b""
        if k in ("cat", "alt"):
            pos[0] += 2
            a = node()
            b = node()
            pos[0] += 1
            return a + b if k == "cat" else (a if rng.chance(1, 2) else b)
        if k == "star":
            pos[0] += 2
            start = pos[0]
            out = b""
            n = rng.below(3)
            a = node()
            for i in range(n):
                out += a
            pos[0] += 1
            return out
        if k == "rep":
            pos[0] += 2
            a = node()
            n = int(toks[pos[0]])
            m = toks[pos[0] + 1]
            pos[0] += 3
            cnt = n + (rng.below(3) if m == "inf" else rng.below(int(m) - n + 1))
            return a * cnt if len(a) != 1 or True else a
        raise ValueError(k)
    try:
        return node()[:maxlen]
    except Exception:
        return b""


def widen_sexp(sexp):
    """the wide form of an expression: every byte-consuming node is followed by a zero byte"""
    toks = sexp.split()
    out = []
    i = 0
    while i < len(toks):
        if toks[i] == "(" and i + 1 < len(toks) and toks[i + 1] == "set":
            depth, j = 0, i
            while True:
                if toks[j] == "(":
                    depth += 1
                elif toks[j] == ")":
                    depth -= 1
                    if depth == 0:
                        break
                j += 1
            out += ["(", "cat"] + toks[i:j + 1] + ["(", "set", "(", "b", "0", ")", ")", ")"]
            i = j + 1
        else:
            out.append(toks[i])
            i += 1
    return " ".join(out)


def nullable(e):
    """can the expression match the empty string?"""
    k = e[0]
    if k in ("empty", "start", "end", "wb", "nwb"):
        return True
    if k == "cat":
        return nullable(e[1]) and nullable(e[2])
    if k == "alt":
        return nullable(e[1]) or nullable(e[2])
    if k in ("star", "opt"):
        return True
    if k == "plus":
        return nullable(e[1])
    if k == "rep":
        return e[2] == 0 or nullable(e[1])
    return False


def has_looped_nullable_rep(e):
    """a counted repeat {n,m} with n >= 3 over a body that can match the empty string (known finding: compiled to a counting loop whose
    empty iterations are discarded as duplicate fibers)"""
    if not isinstance(e, tuple):
        return False
    if e[0] == "rep" and e[2] >= 3 and nullable(e[1]):
        return True
    return any(has_looped_nullable_rep(x) for x in e[1:] if isinstance(x, tuple))


def has_unbounded_nullable_rep(e):
    """star / plus / {n,} over a body that can match the empty string (and is not purely zero-width): known to exhaust the fibers"""
    if not isinstance(e, tuple):
        return False
    if (e[0] in ("star", "plus") or (e[0] == "rep" and e[3] is None)) and nullable(e[1]):
        return True
    return any(has_unbounded_nullable_rep(x) for x in e[1:] if isinstance(x, tuple))
