"""Helpers shared by checks/c11.py and checks/c13.py: a model runner built from this property's own extraction
part only (so that somebody else's half-finished fragment cannot take the commands away), harness-trace
parsing, rule-set rendering."""
import os, re, hashlib, subprocess, shutil, tempfile
import vlib, build

PART = "30_proto"


def private_model():
    """Extract coq/Extract/parts/30_proto.txt alone and link it with ocaml/cmds/30_proto.ml.
    Needs the .vo files of the part's requirements (built by vlib.proof_obligations before)."""
    COQ = vlib.COQ
    part = open(os.path.join(COQ, "Extract", "parts", PART + ".txt")).read()
    reqs, names = [], []
    for line in part.split("\n"):
        line = line.strip()
        if line.startswith("require:"):
            reqs += line[8:].split()
        elif line.startswith("names:"):
            names += line[6:].split()
    od = os.path.join(vlib.VERIF, "ocaml")
    frags = [os.path.join(od, "prelude.ml"), os.path.join(od, "cmds", PART + ".ml"), os.path.join(od, "main.ml")]
    h = hashlib.sha256()
    h.update(part.encode())
    for f in frags:
        h.update(open(f, "rb").read())
    for r in reqs:   # the models themselves
        h.update(open(os.path.join(COQ, r.replace(".", "/") + ".v"), "rb").read())
    h.update(open(os.path.join(COQ, "gen", "GenConsts.v"), "rb").read())
    d = os.path.join(build.CACHE, "protomodel-" + h.hexdigest()[:16])
    out = os.path.join(d, "runner")
    if os.path.exists(out):
        return out
    tmp = tempfile.mkdtemp(prefix="verif-proto.", dir=build.scratch_root())
    try:
        lock = vlib.coq_lock()
        try:
            ok, log = vlib.coq_make([r.replace(".", "/") + ".vo" for r in reqs])
        finally:
            lock.close()
        if not ok:
            raise vlib.CoqError("model does not compile:\n" + log[-2000:])
        v = ("Require Extraction.\nRequire Import ExtrOcamlBasic.\nFrom YV Require Import %s.\n"
             "Extraction \"model.ml\" %s.\n" % (" ".join(reqs), " ".join(names)))
        open(os.path.join(tmp, "PExtract.v"), "w").write(v)
        p = subprocess.run(["coqc", "-R", COQ, "YV", "-w", "-all", "PExtract.v"], cwd=tmp, stdout=subprocess.PIPE,
                           stderr=subprocess.STDOUT, text=True, timeout=600)
        if p.returncode != 0:
            raise vlib.CoqError("extraction failed:\n" + p.stdout[-2000:])
        open(os.path.join(tmp, "driver.ml"), "w").write("open Model\n" + "\n".join(open(f).read() for f in frags))
        p = subprocess.run(["ocamlfind", "ocamlopt", "-inline", "50", "-w", "-a", "-o", "runner", "model.mli", "model.ml",
                            "driver.ml"], cwd=tmp, stdout=subprocess.PIPE, stderr=subprocess.STDOUT, text=True, timeout=600)
        if p.returncode != 0:
            raise vlib.CoqError("ocaml build failed:\n" + p.stdout[-2000:])
        os.makedirs(d, exist_ok=True)
        shutil.copy(os.path.join(tmp, "runner"), out + ".tmp%d" % os.getpid())
        os.rename(out + ".tmp%d" % os.getpid(), out)
        return out
    finally:
        shutil.rmtree(tmp, ignore_errors=True)


def hscan_flag():
    """h_proto.c includes h_scan.c: make the harness cache key depend on it."""
    return ["-DHSCAN_SHA=" + hashlib.sha256(open(os.path.join(vlib.VERIF, "harness", "h_scan.c"), "rb").read()).hexdigest()[:12]]


SCAN_RE = re.compile(r"^scan msgs=(.*) rc=(-?\d+)(?: calls=\d+)?(?: log=(\S+))?$")


def parse_scan(line):
    """'scan msgs=M:ns:r:$a=0/3/3/0,|;F; rc=0 log=f0' -> ([(kind, ns, name, {sid: [offsets]})...], rc, log)"""
    m = SCAN_RE.match(line)
    if not m:
        return None
    msgs = []
    for part in m.group(1).split(";"):
        if not part:
            continue
        f = part.split(":")
        k = f[0]
        if k in ("M", "N"):
            strs = {}
            if len(f) > 3:
                for s in ":".join(f[3:]).split("|"):
                    if "=" in s:
                        sid, ms = s.split("=", 1)
                        strs[sid] = [int(x.split("/")[0]) for x in ms.split(",") if x]
            msgs.append((k, f[1], f[2], strs))
        elif k in ("I", "D"):
            msgs.append((k, f[1]))
        else:
            msgs.append((k,))
    return msgs, int(m.group(2)), m.group(3)


def hexs(s):
    return s.encode().hex()
