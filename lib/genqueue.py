"""GenQueue.v: the file-queue protocol of cli/yara.c (file_queue_init/put/get/finish and the way main()
and scanning_thread() use them) translated to a `config` over coq/Model/QueueOps.v on every run.

A deliberately dumb statement-level pattern scanner: every statement of the three functions must match
one of a dozen patterns, anything else raises GenError("translator cannot parse ...").  Statement ORDER
is not constrained here: a reordered function (e.g. the index update moved after the unlock) translates
to a different op list, which the proofs then reject.
"""
import os, re
import gen
from gen import GenError
import build

ID = r"[A-Za-z_][A-Za-z0-9_]*"


def _src():
    p = os.path.join(build.REPO, "cli", "yara.c")
    if not os.path.exists(p):
        raise GenError("translator cannot find cli/yara.c")
    return open(p, encoding="latin-1").read()


def strip_comments(txt):
    out = []
    i, n = 0, len(txt)
    while i < n:
        if txt.startswith("//", i):
            while i < n and txt[i] != "\n":
                i += 1
        elif txt.startswith("/*", i):
            j = txt.find("*/", i)
            if j < 0:
                raise GenError("translator cannot parse cli/yara.c: unterminated comment")
            i = j + 2
        elif txt[i] == '"' or txt[i] == "'":
            q = txt[i]
            j = i + 1
            while j < n and txt[j] != q:
                if txt[j] == "\\":
                    j += 1
                j += 1
            out.append(txt[i:j + 1])
            i = j + 1
        else:
            out.append(txt[i])
            i += 1
    return "".join(out)


def _match(txt, i, o, c):
    assert txt[i] == o
    d = 0
    while i < len(txt):
        if txt[i] == o:
            d += 1
        elif txt[i] == c:
            d -= 1
            if d == 0:
                return i + 1
        i += 1
    raise GenError("translator cannot parse cli/yara.c: unbalanced %s%s" % (o, c))


def function_body(txt, name):
    """Body of the POSIX (non-Windows) definition of a static function; exactly one definition allowed
    outside `#if defined(_WIN32)` blocks for the functions translated here."""
    ms = list(re.finditer(r"^static\s+[A-Za-z_][A-Za-z0-9_\s\*]*?\b%s\s*\(" % name, txt, re.M))
    if len(ms) != 1:
        raise GenError("translator cannot parse cli/yara.c: %d definitions of %s" % (len(ms), name))
    i = _match(txt, ms[0].end() - 1, "(", ")")
    m = re.match(r"\s*\{", txt[i:])
    if not m:
        raise GenError("translator cannot parse cli/yara.c: no body for " + name)
    b = i + m.end() - 1
    e = _match(txt, b, "{", "}")
    return txt[b + 1:e - 1]


def parse_stmts(txt):
    """Block text -> list of statements: ('s', text) | ('if', cond, then_stmts, else_stmts|None) |
    ('for', header, body_stmts)."""
    out = []
    i, n = 0, len(txt)

    def one(i):
        while i < n and txt[i].isspace():
            i += 1
        if i >= n:
            return None, i
        m = re.match(r"(if|for|while)\s*\(", txt[i:])
        if m:
            kw = m.group(1)
            j = _match(txt, i + m.end() - 1, "(", ")")
            head = txt[i + m.end():j - 1].strip()
            body, j = one(j)
            if body is None:
                raise GenError("translator cannot parse cli/yara.c: %s without body" % kw)
            body = body[1] if body[0] == "block" else [body]
            if kw == "if":
                m2 = re.match(r"\s*else\b", txt[j:])
                els = None
                if m2:
                    e, j = one(j + m2.end())
                    if e is None:
                        raise GenError("translator cannot parse cli/yara.c: else without body")
                    els = e[1] if e[0] == "block" else [e]
                return ("if", head, body, els), j
            return (kw, head, body), j
        if txt[i] == "{":
            j = _match(txt, i, "{", "}")
            return ("block", parse_stmts(txt[i + 1:j - 1])), j
        j = txt.find(";", i)
        if j < 0:
            raise GenError("translator cannot parse cli/yara.c: statement without ';': %r" % txt[i:i + 60])
        return ("s", re.sub(r"\s+", " ", txt[i:j]).strip()), j + 1

    while True:
        s, i = one(i)
        if s is None:
            break
        if s[0] == "block":
            out.extend(s[1])
        else:
            out.append(s)
    return out


def const_expr(e, env):
    """NAME | int | NAME (+|-) int, optionally parenthesised -> (python value, Coq Z term)."""
    e = e.strip()
    while e.startswith("(") and _match(e, 0, "(", ")") == len(e):
        e = e[1:-1].strip()
    m = re.match(r"^(%s|\d+)\s*(?:([+-])\s*(\d+))?$" % ID, e)
    if not m:
        raise GenError("translator cannot parse constant expression '%s' in cli/yara.c" % e)
    a, opr, b = m.groups()
    if a.isdigit():
        v, t = int(a), "%s" % a
    elif a in env:
        v, t = env[a]
    else:
        raise GenError("translator cannot parse constant '%s' in cli/yara.c" % a)
    if opr:
        v = v + int(b) if opr == "+" else v - int(b)
        t = "(%s %s %s)" % (t, opr, b)
    if v < 0:
        raise GenError("translator cannot parse: negative constant '%s' in cli/yara.c" % e)
    return v, t


def parse():
    """Returns a dict describing the protocol (python values + Coq terms)."""
    txt = strip_comments(_src())
    # POSIX side only: drop the bodies of #if defined(_WIN32) ... #else (keep the #else part)
    txt = re.sub(r"^#if defined\(_WIN32\) \|\| defined\(__CYGWIN__\)\n(.*?)^#else\n(.*?)^#endif\n",
                 lambda m: m.group(2), txt, flags=re.S | re.M)
    env = {}
    m = re.findall(r"^#define\s+MAX_QUEUED_FILES\s+(\d+)\s*$", txt, re.M)
    if len(m) != 1:
        raise GenError("translator cannot parse cli/yara.c: #define MAX_QUEUED_FILES <int>")
    env["MAX_QUEUED_FILES"] = (int(m[0]), "MAX_QUEUED_FILES")
    K = gen_consts_value("YR_MAX_THREADS")
    env["YR_MAX_THREADS"] = (K, "GenConsts.YR_MAX_THREADS")
    # ---- declarations
    m = re.findall(r"^QUEUED_FILE\s+(%s)\s*\[([^\]]+)\]\s*;" % ID, txt, re.M)
    if len(m) != 1:
        raise GenError("translator cannot parse cli/yara.c: declaration of the QUEUED_FILE ring")
    ring, slots_e = m[0]
    slots = const_expr(slots_e, env)
    sems = re.findall(r"^SEMAPHORE\s+(%s)\s*;" % ID, txt, re.M)
    mtxs = re.findall(r"^MUTEX\s+(%s)\s*;" % ID, txt, re.M)
    ints = re.findall(r"^int\s+(%s)\s*;" % ID, txt, re.M)
    if len(sems) != 2:
        raise GenError("translator cannot parse cli/yara.c: expected two SEMAPHORE globals, found %s" % sems)
    # ---- file_queue_init
    init = {}
    sem_init = {}
    qmutex = None
    for st in parse_stmts(function_body(txt, "file_queue_init")):
        if st[0] == "if" and re.match(r"^result\s*!=\s*0$", st[1]) and st[2] == [("s", "return result")] and st[3] is None:
            continue
        if st[0] != "s":
            raise GenError("translator cannot parse file_queue_init: %r" % (st,))
        s = st[1]
        if s == "int result":
            continue
        m = re.match(r"^(%s) = (\d+)$" % ID, s)
        if m and m.group(1) in ints:
            init[m.group(1)] = int(m.group(2))
            continue
        m = re.match(r"^(?:result =|return) cli_mutex_init\(&(%s)\)$" % ID, s)
        if m and m.group(1) in mtxs and qmutex is None:
            qmutex = m.group(1)
            continue
        m = re.match(r"^(?:result =|return) cli_semaphore_init\(&(%s), (.+)\)$" % ID, s)
        if m and m.group(1) in sems and m.group(1) not in sem_init:
            sem_init[m.group(1)] = const_expr(m.group(2), env)
            continue
        raise GenError("translator cannot parse file_queue_init statement '%s'" % s)
    if qmutex is None or set(sem_init) != set(sems):
        raise GenError("translator cannot parse file_queue_init: mutex/semaphores not all initialised")
    zero = [s for s in sems if sem_init[s][0] == 0]
    if len(zero) != 1:
        raise GenError("translator cannot parse file_queue_init: exactly one semaphore must start at 0 (%s)"
                       % {s: sem_init[s][0] for s in sems})
    used = zero[0]
    unused = [s for s in sems if s != used][0]
    role = {used: "QUsed", unused: "QUnused"}

    # ---- put / get
    vrole = {}

    def sync_stmt(s, fn):
        m = re.match(r"^cli_mutex_(lock|unlock)\(&(%s)\)$" % ID, s)
        if m:
            if m.group(2) != qmutex:
                raise GenError("translator cannot parse %s: '%s' uses a mutex other than %s" % (fn, s, qmutex))
            return "QLock" if m.group(1) == "lock" else "QUnlock"
        m = re.match(r"^cli_semaphore_release\(&(%s)\)$" % ID, s)
        if m and m.group(1) in role:
            return "QRelease " + role[m.group(1)]
        return None

    def wait_stmt(st, fn, ret):
        if st[0] == "if" and st[3] is None and st[2] == [("s", "return " + ret)]:
            m = re.match(r"^cli_semaphore_wait\(&(%s), deadline\) == ERROR_SCAN_TIMEOUT$" % ID, st[1])
            if m and m.group(1) in role:
                return "QWait " + role[m.group(1)]
        return None

    def inc_stmt(s):
        m = re.match(r"^(%s) = \((%s) \+ 1\) %% (.+)$" % (ID, ID), s)
        if m and m.group(1) == m.group(2) and m.group(1) in ints:
            return m.group(1), const_expr(m.group(3), env)
        return None

    put_ops, get_ops = [], []      # entries: str or ('inc', var, (v,t)) etc. resolved after roles are known
    for st in parse_stmts(function_body(txt, "file_queue_put")):
        w = wait_stmt(st, "file_queue_put", "ERROR_SCAN_TIMEOUT")
        if w:
            put_ops.append(w)
            continue
        if st[0] != "s":
            raise GenError("translator cannot parse file_queue_put: %r" % (st,))
        s = st[1]
        if s == "return ERROR_SUCCESS":
            continue
        o = sync_stmt(s, "file_queue_put")
        if o:
            put_ops.append(o)
            continue
        m = re.match(r"^%s\[(%s)\]\.path = _tcsdup\(file_path\)$" % (re.escape(ring), ID), s)
        if m and m.group(1) in ints:
            vrole.setdefault(m.group(1), "QTail")
            if vrole[m.group(1)] != "QTail":
                raise GenError("translator cannot parse file_queue_put: index roles are inconsistent")
            put_ops.append(("store", m.group(1)))
            continue
        inc = inc_stmt(s)
        if inc:
            put_ops.append(("inc",) + inc)
            continue
        raise GenError("translator cannot parse file_queue_put statement '%s'" % s)

    def get_stmt(st, acc):
        w = wait_stmt(st, "file_queue_get", "NULL")
        if w:
            acc.append(w)
            return
        if st[0] == "if":
            m = re.match(r"^(%s) == (%s)$" % (ID, ID), st[1])
            if not (m and m.group(1) in ints and m.group(2) in ints and st[2] == [("s", "result = NULL")]
                    and st[3] is not None):
                raise GenError("translator cannot parse file_queue_get: if (%s) ..." % st[1])
            els = []
            for e in st[3]:
                get_stmt(e, els)
            acc.append(("ifeq", m.group(1), m.group(2), len(els)))
            acc.extend(els)
            return
        if st[0] != "s":
            raise GenError("translator cannot parse file_queue_get: %r" % (st,))
        s = st[1]
        if s in ("char_t* result", "return result"):
            return
        o = sync_stmt(s, "file_queue_get")
        if o:
            acc.append(o)
            return
        m = re.match(r"^result = %s\[(%s)\]\.path$" % (re.escape(ring), ID), s)
        if m and m.group(1) in ints:
            vrole.setdefault(m.group(1), "QHead")
            if vrole[m.group(1)] != "QHead":
                raise GenError("translator cannot parse file_queue_get: the slot read is indexed by the put index")
            acc.append(("load", m.group(1)))
            return
        inc = inc_stmt(s)
        if inc:
            acc.append(("inc",) + inc)
            return
        raise GenError("translator cannot parse file_queue_get statement '%s'" % s)

    for st in parse_stmts(function_body(txt, "file_queue_get")):
        get_stmt(st, get_ops)
    if sorted(vrole.values()) != ["QHead", "QTail"]:
        raise GenError("translator cannot parse cli/yara.c: could not identify the head and tail indices (%s)" % vrole)

    def resolve(ops, fn):
        out = []
        for o in ops:
            if isinstance(o, str):
                out.append(o)
                continue
            for v in [x for x in o[1:] if isinstance(x, str)]:
                if v not in vrole:
                    raise GenError("translator cannot parse %s: unknown shared variable %s" % (fn, v))
            if o[0] == "store":
                out.append("QStore " + vrole[o[1]])
            elif o[0] == "load":
                out.append("QLoad " + vrole[o[1]])
            elif o[0] == "inc":
                out.append("QInc %s (Z.to_nat %s)" % (vrole[o[1]], o[2][1]))
            elif o[0] == "ifeq":
                out.append("QIfEqElse %s %s %d" % (vrole[o[1]], vrole[o[2]], o[3]))
        return out

    put_c, get_c = resolve(put_ops, "file_queue_put"), resolve(get_ops, "file_queue_get")
    head = [k for k, v in vrole.items() if v == "QHead"][0]
    tail = [k for k, v in vrole.items() if v == "QTail"][0]
    if head not in init or tail not in init:
        raise GenError("translator cannot parse file_queue_init: %s/%s not initialised" % (head, tail))
    # ---- finish
    fin = parse_stmts(function_body(txt, "file_queue_finish"))
    ok = False
    if len(fin) == 1 and fin[0][0] == "for":
        m = re.match(r"^int (%s) = 0; (%s) < (.+); (%s)\+\+$" % (ID, ID, ID), re.sub(r"\s+", " ", fin[0][1]))
        b = fin[0][2]
        if m and m.group(1) == m.group(2) == m.group(4) and len(b) == 1 and b[0][0] == "s":
            m2 = re.match(r"^cli_semaphore_release\(&(%s)\)$" % ID, b[0][1])
            if m2 and m2.group(1) in role:
                fin_n = const_expr(m.group(3), env)
                fin_sem = role[m2.group(1)]
                ok = True
    if not ok:
        raise GenError("translator cannot parse file_queue_finish: %r" % (fin,))
    # ---- how main() and scanning_thread() use the queue (structure assumed by Model/Queue.v)
    mainb = function_or_main(txt)
    m = re.search(r"if \(threads > (%s)\)\s*\{[^}]*return EXIT_FAILURE;" % ID, mainb)
    if not m:
        raise GenError("translator cannot parse main(): no upper bound check on the number of threads")
    max_threads = const_expr(m.group(1), env)
    seq = [mainb.find("file_queue_init()"), mainb.find("cli_create_thread("), mainb.find("scan_dir(argv"),
           mainb.find("populate_scan_list(argv"), mainb.find("file_queue_finish();"), mainb.find("cli_thread_join(")]
    if min(seq) < 0 or not (seq[0] < seq[1] < seq[2] < seq[4] < seq[5] and seq[3] < seq[4]) or \
            mainb.count("file_queue_finish();") != 1:
        raise GenError("translator cannot parse main(): expected init; create threads; scan_dir/populate_scan_list; "
                       "file_queue_finish(); join")
    if not re.search(r"for \(int i = 0; i < threads; i\+\+\)\s*\{[^}]*?cli_create_thread\(\s*&thread\[i\], scanning_thread,",
                     mainb, re.S):
        # the loop body contains nested braces; fall back to a looser check
        if not re.search(r"for \(int i = 0; i < threads; i\+\+\)", mainb) or "scanning_thread" not in mainb:
            raise GenError("translator cannot parse main(): scanning threads are not created in a loop over `threads`")
    st = function_body(txt, "scanning_thread")
    if len(re.findall(r"file_queue_get\(", st)) != 2 or not re.search(r"while \(file_path != NULL\)", st) or \
            not re.search(r"char_t\* file_path = file_queue_get\(args->deadline\);", st) or \
            not re.search(r"free\(file_path\);\s*file_path = file_queue_get\(args->deadline\);", st):
        raise GenError("translator cannot parse scanning_thread(): expected `p = get(); while (p != NULL) { scan; free(p); p = get(); }`")
    puts = len(re.findall(r"file_queue_put\(", txt)) - 1
    return dict(max_queued=env["MAX_QUEUED_FILES"][0], slots=slots, sem_used=used, sem_unused=unused,
                used0=sem_init[used], unused0=sem_init[unused], mutex=qmutex, head=head, tail=tail, ring=ring,
                head0=init[head], tail0=init[tail], put=put_c, get=get_c, fin_n=fin_n, fin_sem=fin_sem,
                max_threads=max_threads, put_sites=puts, yr_max_threads=K)


def function_or_main(txt):
    m = re.search(r"^int _tmain\(int argc, const char_t\*\* argv\)\s*\{", txt, re.M)
    if not m:
        raise GenError("translator cannot parse cli/yara.c: main not found")
    b = m.end() - 1
    return txt[b:_match(txt, b, "{", "}")]


def gen_consts_value(name):
    p = os.path.join(gen.GEN_DIR, "GenConsts.v")
    if os.path.exists(p):
        m = re.search(r"^Definition %s : Z := \(?(-?\d+)\)?%%Z\." % name, open(p).read(), re.M)
        if m:
            return int(m.group(1))
    # GenConsts.v is regenerated in the same pass (dict order: GenConsts first); fall back to the header
    h = open(os.path.join(build.REPO, "libyara/include/yara/limits.h"), encoding="latin-1").read()
    m = re.search(r"^#define\s+%s\s+(\d+)\s*$" % name, h, re.M)
    if not m:
        raise GenError("translator cannot parse limits.h: " + name)
    return int(m.group(1))


@gen.register("GenQueue.v")
def gen_queue():
    d = parse()
    L = lambda ops: "[" + "; ".join(ops) + "]"
    return ("(* GENERATED from /repo/cli/yara.c (file_queue_init/put/get/finish, main, scanning_thread) by\n"
            "   lib/genqueue.py: do not edit.  Shared names in the source: ring %s, head %s, tail %s,\n"
            "   semaphores %s (QUsed) / %s (QUnused), mutex %s. *)\n"
            "From Coq Require Import ZArith List.\nImport ListNotations.\n"
            "From YV Require Import gen.GenConsts Model.QueueOps.\nLocal Open Scope Z_scope.\n\n"
            "Definition MAX_QUEUED_FILES : Z := %d.\n\n"
            "Definition queue_cfg : qconfig := {|\n"
            "  qc_put := %s;\n  qc_get := %s;\n  qc_fin_sem := %s;\n  qc_fin_n := Z.to_nat %s;\n"
            "  qc_slots := Z.to_nat %s;\n  qc_used0 := Z.to_nat %s;\n  qc_unused0 := Z.to_nat %s;\n"
            "  qc_head0 := %d;\n  qc_tail0 := %d\n|}.\n\n"
            "(* main() refuses to start with more scanning threads than this *)\n"
            "Definition queue_max_threads : nat := Z.to_nat %s.\n"
            % (d["ring"], d["head"], d["tail"], d["sem_used"], d["sem_unused"], d["mutex"], d["max_queued"],
               L(d["put"]), L(d["get"]), d["fin_sem"], d["fin_n"][1], d["slots"][1], d["used0"][1], d["unused0"][1],
               d["head0"], d["tail0"], d["max_threads"][1]))


import genoutput  # noqa: registers GenOutput.v (lock discipline of the output path), same tie, same property


if __name__ == "__main__":
    import json
    print(json.dumps(parse(), indent=1))
    print(gen_queue())
